(* Proofs about the token-level parser / printer models (properties C17 and C16).
   Part A: class invariants of the objects returned by the four parsers.
   Part B: rejection lemmas (one per fault class).
   Part S: a closed-form specification of parse_automaton (parse_automaton_spec).
   Part C: insensitivity to layout (comments, label splitting, line order).
   Part D: print / parse round trips.
   Stdlib only, no axioms. *)
From Coq Require Import Permutation.
From GT Require Import Base.Prelude Model.Tokens Model.Parser Model.Printer.

(* ------------------------------------------------------------------ *)
(* generic list helpers                                                *)
(* ------------------------------------------------------------------ *)
Section ListHelpers.
  Context {A : Type} `{Eqb A}.

  Lemma dedup_length_le (l : list A) : length (dedup l) <= length l.
  Proof.
    induction l as [|x l IH]; cbn [dedup length]; [lia|].
    destruct (mem x l); cbn [length]; lia.
  Qed.

  Lemma dedup_length_NoDup (l : list A) : length (dedup l) = length l <-> NoDup l.
  Proof.
    induction l as [|x l IH]; cbn [dedup length].
    - split; [constructor | reflexivity].
    - destruct (mem x l) eqn:E.
      + split.
        * intros Hl. pose proof (dedup_length_le l). lia.
        * intros Hn. inversion Hn as [|y l' Hx Hl]; subst. apply mem_In in E. contradiction.
      + cbn [length]. split.
        * intros Hl. constructor; [apply mem_nIn; exact E | apply IH; lia].
        * intros Hn. inversion Hn as [|y l' Hx Hl]; subst. f_equal. apply IH; exact Hl.
  Qed.

  Lemma NoDup_dedup_id (l : list A) : NoDup l -> dedup l = l.
  Proof.
    induction l as [|x l IH]; intros Hn; [reflexivity|].
    inversion Hn as [|y l' Hx Hl]; subst. cbn [dedup].
    apply mem_nIn in Hx. rewrite Hx. f_equal. apply IH; exact Hl.
  Qed.

  Lemma has_dup_false_NoDup_gen (hd : list A -> bool) :
    (forall ws, hd ws = match ws with [] => false | w :: r => mem w r || hd r end) ->
    forall ws, hd ws = false <-> NoDup ws.
  Proof.
    intros Hhd ws. induction ws as [|w r IH]; rewrite Hhd.
    - split; [constructor | reflexivity].
    - rewrite orb_false_iff, IH, mem_nIn. split.
      + intros [Hw Hr]; constructor; assumption.
      + intros Hn; inversion Hn; subst; split; assumption.
  Qed.
End ListHelpers.

Lemma has_dup_NoDup (ws : list token) : has_dup ws = false <-> NoDup ws.
Proof. apply has_dup_false_NoDup_gen. intros [|w r]; reflexivity. Qed.

Lemma has_dup_dedup (ws : list token) : has_dup ws = false -> dedup ws = ws.
Proof. intros Hd. apply NoDup_dedup_id, has_dup_NoDup; exact Hd. Qed.

(* ------------------------------------------------------------------ *)
(* Part A: class invariants                                            *)
(* ------------------------------------------------------------------ *)
Lemma build_dfa_wf sre A D : build_dfa sre A = Some D -> tdfa_wf_b D = true.
Proof.
  unfold build_dfa. intros Hb.
  destruct (negb (check_common sre (states_or_used A) A)); [discriminate|].
  destruct (negb (Nat.eqb _ _)); [discriminate|].
  destruct (get_symbol_set A kw_input_symbols _) as [sigma|]; [|discriminate].
  destruct (negb (forallb re_word sigma)); [discriminate|].
  destruct (negb (forallb _ (states_or_used A))); [discriminate|].
  match type of Hb with (if tdfa_wf_b ?X then _ else _) = _ => destruct (tdfa_wf_b X) eqn:Hwf; [|discriminate] end.
  inversion Hb; subst; exact Hwf.
Qed.

Lemma build_nfa_wf sre A N : build_nfa sre A = Some N -> tnfa_wf_b N = true.
Proof.
  unfold build_nfa. intros Hb.
  destruct (negb (check_common sre (states_or_used A) A)); [discriminate|].
  destruct (parse_symbol A kw_epsilon c_eps [c_underscore]) as [eps|]; [|discriminate].
  destruct (get_symbol_set A kw_input_symbols _) as [sigma|]; [|discriminate].
  destruct (negb (forallb re_word sigma)); [discriminate|].
  match type of Hb with (if tnfa_wf_b ?X then _ else _) = _ => destruct (tnfa_wf_b X) eqn:Hwf; [|discriminate] end.
  inversion Hb; subst; exact Hwf.
Qed.

Lemma build_pda_wf sre A P : build_pda sre A = Some P -> tpda_wf_b P = true.
Proof.
  unfold build_pda. intros Hb.
  destruct (negb (check_common sre (states_or_used A) A)); [discriminate|].
  destruct (parse_symbol A kw_epsilon c_eps [c_underscore]) as [eps|]; [|discriminate].
  destruct (get_symbol_set A kw_input_symbols _) as [sigma|]; [|discriminate].
  destruct (get_symbol_set A kw_stack_symbols _) as [gamma|]; [|discriminate].
  destruct (negb (forallb re_word sigma)); [discriminate|].
  match type of Hb with (if tpda_wf_b ?X then _ else _) = _ => destruct (tpda_wf_b X) eqn:Hwf; [|discriminate] end.
  inversion Hb; subst; exact Hwf.
Qed.

Lemma build_tm_wf sre A T : build_tm sre A = Some T -> ttm_wf_b T = true.
Proof.
  unfold build_tm. intros Hb.
  destruct (get_single A kw_accept _) as [qa|]; [|discriminate].
  destruct (get_single A kw_reject _) as [qr|]; [|discriminate].
  destruct (negb (check_common sre _ A)); [discriminate|].
  destruct (parse_symbol A kw_blank c_box [c_underscore]) as [blank|]; [|discriminate].
  destruct (get_symbol_set A kw_tape_symbols _) as [tape|]; [|discriminate].
  match type of Hb with (if ttm_wf_b ?X then _ else _) = _ => destruct (ttm_wf_b X) eqn:Hwf; [|discriminate] end.
  inversion Hb; subst; exact Hwf.
Qed.

Theorem parse_dfa_wf : forall sre text D, parse_dfa_with sre text = Some D -> tdfa_wf_b D = true.
Proof.
  intros sre text D. unfold parse_dfa_with.
  destruct (parse_automaton _ _ _ text) as [A|]; [apply build_dfa_wf | discriminate].
Qed.

Theorem parse_nfa_wf : forall text N, parse_nfa text = Some N -> tnfa_wf_b N = true.
Proof.
  intros text N. unfold parse_nfa.
  destruct (parse_automaton _ _ _ text) as [A|]; [apply build_nfa_wf | discriminate].
Qed.

Theorem parse_pda_wf : forall text P, parse_pda text = Some P -> tpda_wf_b P = true.
Proof.
  intros text P. unfold parse_pda.
  destruct (parse_automaton _ _ _ text) as [A|]; [apply build_pda_wf | discriminate].
Qed.

Theorem parse_tm_wf : forall text T, parse_tm text = Some T -> ttm_wf_b T = true.
Proof.
  intros text T. unfold parse_tm.
  destruct (parse_automaton _ _ _ text) as [A|]; [apply build_tm_wf | discriminate].
Qed.

(* ------------------------------------------------------------------ *)
(* Part S: line classification and a closed form of parse_automaton     *)
(* ------------------------------------------------------------------ *)
Definition starts_percent (w : token) : bool := match w with c :: _ => Nat.eqb c c_percent | [] => false end.
(* blank line or comment line *)
Definition is_comment (l : line) : bool := match l with [] => true | w0 :: _ => starts_percent w0 end.
Definition is_reserved (kw : list token) (w : token) : bool :=
  eqb w kw_states || eqb w kw_final || eqb w kw_initial || mem w kw.
Definition is_decl (kw : list token) (l : line) : bool :=
  match l with [] => false | w0 :: _ => negb (starts_percent w0) && is_reserved kw w0 end.
Definition is_trans (kw : list token) (l : line) : bool := negb (is_comment l) && negb (is_decl kw l).

(* the declaration (keyword, words) carried by a line, as a list of length <= 1 *)
Definition decl_of (kw : list token) (l : line) : list (token * list token) :=
  match l with [] => [] | w0 :: ws => if is_decl kw l then [(w0, ws)] else [] end.
(* the transitions carried by a line *)
Definition trans_of (kw : list token) (l : line) : list (token * token * token) :=
  if is_trans kw l then match l with w0 :: q :: labels => map (fun a => (w0, a, q)) labels | _ => [] end else [].
(* the per-line checks of the parser *)
Definition line_ok (sre lre : token -> bool) (kw : list token) (l : line) : bool :=
  match l with
  | [] => true
  | w0 :: ws =>
    if starts_percent w0 then true
    else if eqb w0 kw_states then negb (has_dup ws) && negb (match ws with [] => true | _ => false end) && forallb sre ws
    else if eqb w0 kw_final || eqb w0 kw_initial then negb (has_dup ws) && forallb sre ws
    else if mem w0 kw then true
    else match ws with q :: l1 :: lrest => sre w0 && sre q && forallb lre (l1 :: lrest) | _ => false end
  end.

Definition field (k : token) (ds : list (token * list token)) (dflt : list token) : list token :=
  match lookup k ds with Some ws => ws | None => dflt end.
Definition apply_line (kw : list token) (A : automaton) (l : line) : automaton :=
  mkAut (field kw_states (decl_of kw l) (a_states A)) (a_trans A ++ trans_of kw l)
        (field kw_initial (decl_of kw l) (a_init A)) (field kw_final (decl_of kw l) (a_final A))
        (a_items A ++ decl_of kw l).
Definition line_fresh (kw : list token) (A : automaton) (l : line) : bool :=
  forallb (fun d => negb (has_key (fst d) (a_items A))) (decl_of kw l).

Lemma kw_states_final : eqb kw_states kw_final = false. Proof. reflexivity. Qed.
Lemma kw_states_initial : eqb kw_states kw_initial = false. Proof. reflexivity. Qed.
Lemma kw_final_initial : eqb kw_final kw_initial = false. Proof. reflexivity. Qed.
Lemma kw_final_states : eqb kw_final kw_states = false. Proof. reflexivity. Qed.
Lemma kw_initial_states : eqb kw_initial kw_states = false. Proof. reflexivity. Qed.
Lemma kw_initial_final : eqb kw_initial kw_final = false. Proof. reflexivity. Qed.

Lemma eqb_sym {A} `{Eqb A} (x y : A) : eqb x y = eqb y x.
Proof.
  destruct (eqb x y) eqn:E.
  - apply eqb_true in E; subst. symmetry; apply eqb_refl.
  - apply eqb_neq in E. symmetry. apply eqb_neq. congruence.
Qed.

Lemma aut_eta A : mkAut (a_states A) (a_trans A) (a_init A) (a_final A) (a_items A) = A.
Proof. destruct A; reflexivity. Qed.

Lemma parse_line_spec sre lre kw A l :
  parse_line sre lre kw (Some A) l =
  if line_ok sre lre kw l && line_fresh kw A l then Some (apply_line kw A l) else None.
Proof.
  destruct l as [|w0 ws].
  - cbn. unfold apply_line; cbn. rewrite !app_nil_r. rewrite aut_eta. reflexivity.
  - unfold parse_line, line_ok, line_fresh, apply_line, decl_of, trans_of, is_trans, is_decl, is_comment, is_reserved, starts_percent.
    destruct (match w0 with [] => false | c :: _ => Nat.eqb c c_percent end) eqn:Epc.
    { cbn. rewrite !app_nil_r, aut_eta. reflexivity. }
    cbn [negb andb].
    destruct (eqb w0 kw_states) eqn:Es.
    { apply eqb_true in Es. subst w0. cbn [orb forallb fst]. unfold field; cbn [lookup].
      rewrite eqb_refl, kw_initial_states, kw_final_states.
      unfold parse_state_set. rewrite andb_true_r.
      destruct (has_key kw_states (a_items A)); cbn [negb andb]; [rewrite andb_false_r; reflexivity|].
      destruct (has_dup ws) eqn:Ed; cbn [negb andb]; [reflexivity|].
      destruct ws as [|w ws']; [reflexivity|]. cbn [negb andb].
      destruct (forallb sre (w :: ws')); [|reflexivity].
      rewrite (has_dup_dedup _ Ed). cbn [andb]. rewrite app_nil_r. reflexivity. }
    destruct (eqb w0 kw_final) eqn:Ef.
    { apply eqb_true in Ef. subst w0. cbn [orb forallb fst]. unfold field; cbn [lookup].
      rewrite eqb_refl, kw_states_final, kw_initial_final.
      unfold parse_state_set. rewrite andb_true_r.
      destruct (has_key kw_final (a_items A)); cbn [negb andb]; [rewrite andb_false_r; reflexivity|].
      destruct (has_dup ws) eqn:Ed; cbn [negb andb]; [reflexivity|].
      destruct (forallb sre ws); [|reflexivity].
      rewrite (has_dup_dedup _ Ed). cbn [andb]. rewrite app_nil_r. reflexivity. }
    destruct (eqb w0 kw_initial) eqn:Ei.
    { apply eqb_true in Ei. subst w0. cbn [orb forallb fst]. unfold field; cbn [lookup].
      rewrite eqb_refl, kw_states_initial, kw_final_initial.
      unfold parse_state_set. rewrite andb_true_r.
      destruct (has_key kw_initial (a_items A)); cbn [negb andb]; [rewrite andb_false_r; reflexivity|].
      destruct (has_dup ws) eqn:Ed; cbn [negb andb]; [reflexivity|].
      destruct (forallb sre ws); [|reflexivity].
      rewrite (has_dup_dedup _ Ed). cbn [andb]. rewrite app_nil_r. reflexivity. }
    cbn [orb].
    destruct (mem w0 kw) eqn:Ek.
    { cbn [forallb fst andb negb]. unfold field; cbn [lookup].
      rewrite (eqb_sym kw_states w0), (eqb_sym kw_initial w0), (eqb_sym kw_final w0), Es, Ef, Ei.
      rewrite andb_true_r, app_nil_r.
      destruct (has_key w0 (a_items A)); reflexivity. }
    cbn [forallb negb andb]. unfold field; cbn [lookup]. rewrite andb_true_r.
    rewrite app_nil_r.
    destruct ws as [|q [|l1 lrest]]; reflexivity.
Qed.

Lemma parse_line_None sre lre kw l : parse_line sre lre kw None l = None.
Proof. reflexivity. Qed.

Lemma fold_parse_None sre lre kw text : fold_left (parse_line sre lre kw) text None = None.
Proof. induction text as [|l text IH]; [reflexivity | exact IH]. Qed.

Lemma parse_automaton_app sre lre kw t1 t2 :
  parse_automaton sre lre kw (t1 ++ t2) = fold_left (parse_line sre lre kw) t2 (parse_automaton sre lre kw t1).
Proof. unfold parse_automaton. apply fold_left_app. Qed.

Lemma parse_automaton_snoc sre lre kw t l :
  parse_automaton sre lre kw (t ++ [l]) = parse_line sre lre kw (parse_automaton sre lre kw t) l.
Proof. rewrite parse_automaton_app. reflexivity. Qed.

Definition decls (kw : list token) (text : list line) : list (token * list token) := flat_map (decl_of kw) text.
Definition transs (kw : list token) (text : list line) : list (token * token * token) := flat_map (trans_of kw) text.
Definition text_ok (sre lre : token -> bool) (kw : list token) (text : list line) : bool :=
  forallb (line_ok sre lre kw) text && negb (has_dup (map fst (decls kw text))).
Definition text_aut (kw : list token) (text : list line) : automaton :=
  let ds := decls kw text in
  mkAut (field kw_states ds []) (transs kw text) (field kw_initial ds []) (field kw_final ds []) ds.

Lemma mem_app {A} `{Eqb A} (x : A) l1 l2 : mem x (l1 ++ l2) = mem x l1 || mem x l2.
Proof. unfold mem. apply existsb_app. Qed.

Lemma mem_cons {A} `{Eqb A} (x y : A) l : mem x (y :: l) = eqb x y || mem x l.
Proof. reflexivity. Qed.

Lemma has_dup_snoc (l : list token) k : has_dup (l ++ [k]) = has_dup l || mem k l.
Proof.
  induction l as [|x l IH]; [reflexivity|].
  cbn [app has_dup]. rewrite IH, mem_app, !mem_cons. cbn [mem existsb]. rewrite (eqb_sym k x).
  destruct (mem x l), (eqb x k), (has_dup l), (mem k l); reflexivity.
Qed.

Lemma lookup_app {K V} `{Eqb K} (k : K) (m1 m2 : list (K * V)) :
  lookup k (m1 ++ m2) = match lookup k m1 with Some v => Some v | None => lookup k m2 end.
Proof.
  induction m1 as [|[k' v'] m1 IH]; [reflexivity|].
  cbn [app lookup]. destruct (eqb k k'); [reflexivity | exact IH].
Qed.

Lemma has_key_mem k (items : list (token * list token)) : has_key k items = mem k (map fst items).
Proof.
  unfold has_key. induction items as [|[k' v'] items IH]; [reflexivity|].
  cbn [lookup map fst mem existsb]. destruct (eqb k k'); [reflexivity|]. exact IH.
Qed.

Lemma decl_of_cases kw l : decl_of kw l = [] \/ exists k ws, decl_of kw l = [(k, ws)] /\ l = k :: ws /\ is_decl kw l = true.
Proof.
  destruct l as [|w0 ws]; [left; reflexivity|].
  unfold decl_of. destruct (is_decl kw (w0 :: ws)) eqn:E; [right; exists w0, ws; auto | left; reflexivity].
Qed.

Theorem parse_automaton_spec sre lre kw text :
  parse_automaton sre lre kw text = if text_ok sre lre kw text then Some (text_aut kw text) else None.
Proof.
  induction text as [|l text IH] using rev_ind; [reflexivity|].
  rewrite parse_automaton_snoc, IH.
  unfold text_ok, text_aut, decls, transs. rewrite !flat_map_app, forallb_app, map_app. cbn [flat_map forallb].
  rewrite !app_nil_r, andb_true_r.
  fold (decls kw text). fold (transs kw text).
  destruct (forallb (line_ok sre lre kw) text) eqn:Hok; cbn [andb].
  2:{ reflexivity. }
  destruct (has_dup (map fst (decls kw text))) eqn:Hd; cbn [negb].
  { cbn [parse_line].
    destruct (decl_of_cases kw l) as [E|[k [ws [E _]]]]; rewrite E; cbn [map fst].
    - rewrite app_nil_r, Hd, andb_false_r. reflexivity.
    - rewrite has_dup_snoc, Hd, andb_false_r. reflexivity. }
  rewrite parse_line_spec. unfold line_fresh, apply_line. cbn [a_items a_states a_trans a_init a_final].
  destruct (line_ok sre lre kw l); cbn [andb]; [|reflexivity].
  destruct (decl_of_cases kw l) as [E|[k [ws [E _]]]]; rewrite E; cbn [map fst forallb].
  - rewrite !app_nil_r, Hd. cbn [negb]. unfold field. cbn [lookup]. reflexivity.
  - rewrite has_dup_snoc, Hd, has_key_mem, andb_true_r. cbn [orb].
    destruct (mem k (map fst (decls kw text))) eqn:Hm; cbn [negb]; [reflexivity|].
    unfold field. rewrite !lookup_app. cbn [lookup].
    assert (Hlk : lookup k (decls kw text) = None).
    { pose proof (has_key_mem k (decls kw text)) as Hk. unfold has_key in Hk.
      destruct (lookup k (decls kw text)); [rewrite Hm in Hk; discriminate | reflexivity]. }
    f_equal. f_equal.
    + destruct (eqb kw_states k) eqn:Ek; [apply eqb_true in Ek; subst k; rewrite Hlk; reflexivity|].
      destruct (lookup kw_states (decls kw text)); reflexivity.
    + destruct (eqb kw_initial k) eqn:Ek; [apply eqb_true in Ek; subst k; rewrite Hlk; reflexivity|].
      destruct (lookup kw_initial (decls kw text)); reflexivity.
    + destruct (eqb kw_final k) eqn:Ek; [apply eqb_true in Ek; subst k; rewrite Hlk; reflexivity|].
      destruct (lookup kw_final (decls kw text)); reflexivity.
Qed.

(* ------------------------------------------------------------------ *)
(* Part B: rejection lemmas                                            *)
(* ------------------------------------------------------------------ *)
(* parse_dfa passes dfa_keywords() since fix F18 (before it fell back to the keywords of all four formats, kw_all) *)
Definition kw_dfa : list token := [kw_input_symbols].
(* the union of the keywords of the four formats *)
Definition kw_all : list token := [kw_input_symbols; kw_epsilon; kw_stack_symbols; kw_tape_symbols; kw_blank; kw_accept; kw_reject].
Definition kw_nfa : list token := [kw_input_symbols; kw_epsilon].
Definition kw_pda : list token := [kw_input_symbols; kw_stack_symbols; kw_epsilon].
Definition kw_tm : list token := [kw_input_symbols; kw_tape_symbols; kw_blank; kw_accept; kw_reject].

Lemma parse_dfa_with_unfold sre text :
  parse_dfa_with sre text = match parse_automaton sre re_any kw_dfa text with Some A => build_dfa sre A | None => None end.
Proof. reflexivity. Qed.
Lemma parse_nfa_unfold text :
  parse_nfa text = match parse_automaton re_word re_any kw_nfa text with Some A => build_nfa re_word A | None => None end.
Proof. reflexivity. Qed.
Lemma parse_pda_unfold text :
  parse_pda text = match parse_automaton re_word re_pda_label kw_pda text with Some A => build_pda re_word A | None => None end.
Proof. reflexivity. Qed.
Lemma parse_tm_unfold text :
  parse_tm text = match parse_automaton re_word re_tm_label kw_tm text with Some A => build_tm re_word A | None => None end.
Proof. reflexivity. Qed.

(* a text is rejected by all four parsers as soon as parse_automaton rejects it for the four parameter sets *)
Definition rejected_by_all (text : list line) : Prop :=
  (forall sre, parse_dfa_with sre text = None) /\ parse_nfa text = None /\ parse_pda text = None /\ parse_tm text = None.

Lemma rejected_by_all_intro text :
  (forall sre lre kw, incl kw kw_all -> parse_automaton sre lre kw text = None) -> rejected_by_all text.
Proof.
  intros Hr. unfold rejected_by_all.
  repeat split; [intros sre; rewrite parse_dfa_with_unfold | rewrite parse_nfa_unfold | rewrite parse_pda_unfold | rewrite parse_tm_unfold];
    rewrite Hr; try reflexivity; intros x Hx; cbn in Hx |- *; tauto.
Qed.

(* B0: a line failing the per-line checks anywhere in the text makes the parser reject *)
Lemma bad_line_rejected sre lre kw text l :
  In l text -> line_ok sre lre kw l = false -> parse_automaton sre lre kw text = None.
Proof.
  intros Hin Hbad. rewrite parse_automaton_spec. unfold text_ok.
  assert (Hf : forallb (line_ok sre lre kw) text = false).
  { destruct (forallb (line_ok sre lre kw) text) eqn:E; [|reflexivity].
    rewrite forallb_forall in E. rewrite (E l Hin) in Hbad. discriminate. }
  rewrite Hf. reflexivity.
Qed.

Lemma rejected_line_fold sre lre kw t1 l t2 :
  (forall A, parse_line sre lre kw (Some A) l = None) -> parse_automaton sre lre kw (t1 ++ l :: t2) = None.
Proof.
  intros Hl. rewrite parse_automaton_app. cbn [fold_left].
  destruct (parse_automaton sre lre kw t1) as [A|]; [rewrite Hl|]; apply fold_parse_None.
Qed.

Lemma is_trans_cons kw w0 ws :
  is_trans kw (w0 :: ws) = true <-> starts_percent w0 = false /\ is_reserved kw w0 = false.
Proof.
  unfold is_trans, is_comment, is_decl.
  destruct (starts_percent w0), (is_reserved kw w0); cbn; split; try tauto; try (intros [? ?]; discriminate); discriminate.
Qed.

Lemma is_reserved_false kw w0 :
  is_reserved kw w0 = false -> eqb w0 kw_states = false /\ eqb w0 kw_final = false /\ eqb w0 kw_initial = false /\ mem w0 kw = false.
Proof. unfold is_reserved. rewrite !orb_false_iff. tauto. Qed.

Lemma line_ok_trans sre lre kw w0 ws :
  is_trans kw (w0 :: ws) = true ->
  line_ok sre lre kw (w0 :: ws) =
  match ws with q :: l1 :: lrest => sre w0 && sre q && forallb lre (l1 :: lrest) | _ => false end.
Proof.
  intros Ht. apply is_trans_cons in Ht. destruct Ht as [Hp Hr].
  apply is_reserved_false in Hr. destruct Hr as [Hs [Hf [Hi Hk]]].
  unfold line_ok. fold (starts_percent w0). rewrite Hp, Hs, Hf, Hi, Hk. reflexivity.
Qed.

(* B1: incomplete transitions *)
Lemma incomplete_transition_line sre lre kw l :
  is_trans kw l = true -> length l <= 2 -> line_ok sre lre kw l = false.
Proof.
  intros Ht Hlen. destruct l as [|w0 ws]; [discriminate|].
  rewrite (line_ok_trans sre lre _ _ _ Ht).
  destruct ws as [|q [|l1 lrest]]; try reflexivity. cbn in Hlen. lia.
Qed.

Lemma is_trans_mono kw kw' l : incl kw kw' -> is_trans kw' l = true -> is_trans kw l = true.
Proof.
  intros Hi. destruct l as [|w0 ws]; [discriminate|]. rewrite !is_trans_cons.
  intros [Hp Hr]. split; [exact Hp|].
  apply is_reserved_false in Hr. destruct Hr as [Hs [Hf [Hin Hk]]].
  unfold is_reserved. rewrite Hs, Hf, Hin. cbn [orb].
  apply mem_nIn. apply mem_nIn in Hk. intros Hc. apply Hk, Hi, Hc.
Qed.

Theorem incomplete_transition_rejected : forall sre lre kw text l,
  In l text -> is_trans kw l = true -> length l <= 2 -> parse_automaton sre lre kw text = None.
Proof.
  intros sre lre kw text l Hin Ht Hlen.
  apply (bad_line_rejected _ _ _ _ _ Hin). apply incomplete_transition_line; assumption.
Qed.

Theorem incomplete_transition_rejected_all : forall text l,
  In l text -> is_trans kw_all l = true -> length l <= 2 -> rejected_by_all text.
Proof.
  intros text l Hin Ht Hlen. apply rejected_by_all_intro. intros sre lre kw Hkw.
  apply (incomplete_transition_rejected sre lre kw text l Hin); [|exact Hlen].
  apply (is_trans_mono _ _ _ Hkw Ht).
Qed.

(* B2: ill-formed labels / state words in a transition line *)
Lemma bad_label_line sre lre kw p q labels :
  is_trans kw (p :: q :: labels) = true ->
  sre p = false \/ sre q = false \/ (exists a, In a labels /\ lre a = false) ->
  line_ok sre lre kw (p :: q :: labels) = false.
Proof.
  intros Ht Hbad. rewrite (line_ok_trans sre lre _ _ _ Ht).
  destruct labels as [|l1 lrest]; [reflexivity|].
  destruct Hbad as [Hp|[Hq|[a [Ha Hl]]]].
  - rewrite Hp. reflexivity.
  - rewrite Hq, andb_false_r. reflexivity.
  - apply andb_false_iff. right.
    destruct (forallb lre (l1 :: lrest)) eqn:E; [|reflexivity].
    rewrite forallb_forall in E. rewrite (E a Ha) in Hl. discriminate.
Qed.

Theorem bad_label_rejected : forall sre lre kw text p q labels,
  In (p :: q :: labels) text -> is_trans kw (p :: q :: labels) = true ->
  sre p = false \/ sre q = false \/ (exists a, In a labels /\ lre a = false) ->
  parse_automaton sre lre kw text = None.
Proof.
  intros sre lre kw text p q labels Hin Ht Hbad.
  apply (bad_line_rejected _ _ _ _ _ Hin). apply bad_label_line; assumption.
Qed.

Theorem bad_label_rejected_dfa : forall sre text p q labels,
  In (p :: q :: labels) text -> is_trans kw_dfa (p :: q :: labels) = true ->
  sre p = false \/ sre q = false \/ In [] labels -> parse_dfa_with sre text = None.
Proof.
  intros sre text p q labels Hin Ht Hbad. rewrite parse_dfa_with_unfold.
  rewrite (bad_label_rejected sre re_any kw_dfa text p q labels Hin Ht); [reflexivity|].
  destruct Hbad as [H1|[H1|H1]]; [auto | auto | right; right; exists []; auto].
Qed.

Theorem bad_label_rejected_nfa : forall text p q labels,
  In (p :: q :: labels) text -> is_trans kw_nfa (p :: q :: labels) = true ->
  re_word p = false \/ re_word q = false \/ In [] labels -> parse_nfa text = None.
Proof.
  intros text p q labels Hin Ht Hbad. rewrite parse_nfa_unfold.
  rewrite (bad_label_rejected re_word re_any kw_nfa text p q labels Hin Ht); [reflexivity|].
  destruct Hbad as [H1|[H1|H1]]; [auto | auto | right; right; exists []; auto].
Qed.

Theorem bad_label_rejected_pda : forall text p q labels,
  In (p :: q :: labels) text -> is_trans kw_pda (p :: q :: labels) = true ->
  re_word p = false \/ re_word q = false \/ (exists a, In a labels /\ re_pda_label a = false) -> parse_pda text = None.
Proof.
  intros text p q labels Hin Ht Hbad. rewrite parse_pda_unfold.
  rewrite (bad_label_rejected re_word re_pda_label kw_pda text p q labels Hin Ht Hbad). reflexivity.
Qed.

Theorem bad_label_rejected_tm : forall text p q labels,
  In (p :: q :: labels) text -> is_trans kw_tm (p :: q :: labels) = true ->
  re_word p = false \/ re_word q = false \/ (exists a, In a labels /\ re_tm_label a = false) -> parse_tm text = None.
Proof.
  intros text p q labels Hin Ht Hbad. rewrite parse_tm_unfold.
  rewrite (bad_label_rejected re_word re_tm_label kw_tm text p q labels Hin Ht Hbad). reflexivity.
Qed.

(* B3: duplicate declarations *)
Lemma decl_of_decl kw k ws : is_decl kw (k :: ws) = true -> decl_of kw (k :: ws) = [(k, ws)].
Proof. intros Hd. unfold decl_of. rewrite Hd. reflexivity. Qed.

Lemma decls_app kw t1 t2 : decls kw (t1 ++ t2) = decls kw t1 ++ decls kw t2.
Proof. unfold decls. apply flat_map_app. Qed.
Lemma decls_cons kw l t : decls kw (l :: t) = decl_of kw l ++ decls kw t.
Proof. reflexivity. Qed.
Lemma transs_app kw t1 t2 : transs kw (t1 ++ t2) = transs kw t1 ++ transs kw t2.
Proof. unfold transs. apply flat_map_app. Qed.
Lemma transs_cons kw l t : transs kw (l :: t) = trans_of kw l ++ transs kw t.
Proof. reflexivity. Qed.

Theorem duplicate_declaration_rejected : forall sre lre kw t1 t2 t3 k ws1 ws2,
  is_decl kw (k :: ws1) = true ->
  parse_automaton sre lre kw (t1 ++ (k :: ws1) :: t2 ++ (k :: ws2) :: t3) = None.
Proof.
  intros sre lre kw t1 t2 t3 k ws1 ws2 Hd.
  assert (Hd2 : is_decl kw (k :: ws2) = true) by exact Hd.
  rewrite parse_automaton_spec. unfold text_ok.
  assert (Hdup : has_dup (map fst (decls kw (t1 ++ (k :: ws1) :: t2 ++ (k :: ws2) :: t3))) = true).
  { destruct (has_dup _) eqn:E; [reflexivity|]. exfalso. apply has_dup_NoDup in E.
    rewrite decls_app, decls_cons, decls_app, decls_cons, (decl_of_decl _ _ _ Hd), (decl_of_decl _ _ _ Hd2) in E.
    rewrite !map_app in E. cbn [map fst app] in E.
    apply NoDup_remove_2 in E. apply E. rewrite !in_app_iff. cbn [In]. tauto. }
  rewrite Hdup, andb_false_r. reflexivity.
Qed.

Lemma is_decl_mono kw kw' l : incl kw kw' -> is_decl kw l = true -> is_decl kw' l = true.
Proof.
  intros Hi. destruct l as [|w0 ws]; [discriminate|]. unfold is_decl, is_reserved.
  rewrite !andb_true_iff, !orb_true_iff, !mem_In. intros [Hp Hr]. split; [exact Hp|].
  destruct Hr as [Hr|Hr]; [left; exact Hr | right; apply Hi, Hr].
Qed.

(* a declaration line of states / final / initial that names a state twice *)
Lemma repeated_state_line sre lre kw k ws :
  k = kw_states \/ k = kw_final \/ k = kw_initial -> has_dup ws = true -> line_ok sre lre kw (k :: ws) = false.
Proof.
  intros Hk Hd. destruct Hk as [-> | [-> | ->]]; unfold line_ok; cbn [starts_percent]; rewrite Hd; reflexivity.
Qed.

Theorem repeated_state_rejected : forall sre lre kw text k ws,
  In (k :: ws) text -> k = kw_states \/ k = kw_final \/ k = kw_initial -> has_dup ws = true ->
  parse_automaton sre lre kw text = None.
Proof.
  intros sre lre kw text k ws Hin Hk Hd.
  apply (bad_line_rejected _ _ _ _ _ Hin). apply repeated_state_line; assumption.
Qed.

(* an empty `states` declaration, or a declared state name failing the state pattern *)
Theorem bad_state_declaration_rejected : forall sre lre kw text k ws,
  In (k :: ws) text -> k = kw_states \/ k = kw_final \/ k = kw_initial ->
  (k = kw_states /\ ws = []) \/ (exists s, In s ws /\ sre s = false) ->
  parse_automaton sre lre kw text = None.
Proof.
  intros sre lre kw text k ws Hin Hk Hbad.
  apply (bad_line_rejected _ _ _ _ _ Hin).
  assert (Hf : (exists s, In s ws /\ sre s = false) -> forallb sre ws = false).
  { intros [s [Hs Hr]]. destruct (forallb sre ws) eqn:E; [|reflexivity].
    rewrite forallb_forall in E. rewrite (E s Hs) in Hr. discriminate. }
  destruct Hbad as [[-> ->]|Hbad].
  - reflexivity.
  - specialize (Hf Hbad). destruct Hk as [-> | [-> | ->]]; unfold line_ok; cbn [starts_percent]; rewrite Hf, !andb_false_r; reflexivity.
Qed.

(* ---- builder-level rejections (on the parsed automaton record) ---- *)
Lemma used_states_In A s :
  In s (used_states A) <->
  In s (a_init A) \/ In s (a_final A) \/ exists p a q, In (p, a, q) (a_trans A) /\ (s = p \/ s = q).
Proof.
  unfold used_states. rewrite dedup_In, !in_app_iff, in_flat_map. split.
  - intros [Hi|[Hf|[[[p a] q] [Ht Hs]]]]; [auto | auto |].
    right; right. exists p, a, q. split; [exact Ht|]. cbn in Hs. destruct Hs as [<-|[<-|[]]]; auto.
  - intros [Hi|[Hf|[p [a [q [Ht Hs]]]]]]; [auto | auto |].
    right; right. exists (p, a, q). split; [exact Ht|]. cbn. destruct Hs as [->| ->]; auto.
Qed.

Lemma check_common_init sre st A : length (dedup (a_init A)) <> 1 -> check_common sre st A = false.
Proof.
  intros Hl. unfold check_common. apply Nat.eqb_neq in Hl. rewrite Hl, andb_false_r. reflexivity.
Qed.

Lemma check_common_undeclared sre st A s : In s (used_states A) -> ~ In s st -> check_common sre st A = false.
Proof.
  intros Hu Hn. unfold check_common.
  destruct (subsetb (used_states A) st) eqn:E; [|reflexivity].
  apply subsetb_incl in E. exfalso. apply Hn, E, Hu.
Qed.

Lemma check_common_bad_state sre st A s : In s st -> sre s = false -> check_common sre st A = false.
Proof.
  intros Hs Hr. unfold check_common.
  destruct (forallb sre st) eqn:E; [|rewrite andb_false_r; reflexivity].
  rewrite forallb_forall in E. rewrite (E s Hs) in Hr. discriminate.
Qed.

Lemma build_dfa_check sre A : check_common sre (states_or_used A) A = false -> build_dfa sre A = None.
Proof. intros Hc. unfold build_dfa. rewrite Hc. reflexivity. Qed.
Lemma build_nfa_check sre A : check_common sre (states_or_used A) A = false -> build_nfa sre A = None.
Proof. intros Hc. unfold build_nfa. rewrite Hc. reflexivity. Qed.
Lemma build_pda_check sre A : check_common sre (states_or_used A) A = false -> build_pda sre A = None.
Proof. intros Hc. unfold build_pda. rewrite Hc. reflexivity. Qed.
Definition tm_states (A : automaton) (qa qr : token) : list token :=
  match a_states A with [] => union (used_states A) [qa; qr] | s => s end.
Lemma build_tm_check sre A : (forall qa qr, check_common sre (tm_states A qa qr) A = false) -> build_tm sre A = None.
Proof.
  intros Hc. unfold build_tm.
  destruct (get_single A kw_accept _) as [qa|]; [|reflexivity].
  destruct (get_single A kw_reject _) as [qr|]; [|reflexivity].
  fold (tm_states A qa qr). rewrite Hc. reflexivity.
Qed.

(* B4: no / several initial states *)
Theorem initial_count_rejected : forall sre A, length (dedup (a_init A)) <> 1 ->
  build_dfa sre A = None /\ build_nfa sre A = None /\ build_pda sre A = None /\ build_tm sre A = None.
Proof.
  intros sre A Hl. repeat split.
  - apply build_dfa_check, check_common_init, Hl.
  - apply build_nfa_check, check_common_init, Hl.
  - apply build_pda_check, check_common_init, Hl.
  - apply build_tm_check. intros qa qr. apply check_common_init, Hl.
Qed.

Theorem no_initial_rejected : forall sre A, a_init A = [] ->
  build_dfa sre A = None /\ build_nfa sre A = None /\ build_pda sre A = None /\ build_tm sre A = None.
Proof. intros sre A Hi. apply initial_count_rejected. rewrite Hi. cbn. lia. Qed.

Theorem several_initial_rejected : forall sre A q1 q2, In q1 (a_init A) -> In q2 (a_init A) -> q1 <> q2 ->
  build_dfa sre A = None /\ build_nfa sre A = None /\ build_pda sre A = None /\ build_tm sre A = None.
Proof.
  intros sre A q1 q2 H1 H2 Hne. apply initial_count_rejected.
  apply (dedup_In q1) in H1. apply (dedup_In q2) in H2.
  destruct (dedup (a_init A)) as [|x [|y r]]; cbn [length]; [lia| |lia].
  cbn in H1, H2. destruct H1 as [<-|[]]. destruct H2 as [<-|[]]. congruence.
Qed.

(* text level: the parsed a_init is the word list of the `initial` line, [] if there is none *)
Lemma lookup_NoDup_In {K V} `{Eqb K} (k : K) (v : V) m : NoDup (map fst m) -> In (k, v) m -> lookup k m = Some v.
Proof.
  induction m as [|[k' v'] m IH]; intros Hn Hin; [destruct Hin|].
  cbn [map fst] in Hn. inversion Hn as [|x l Hx Hl]; subst.
  cbn [lookup]. destruct Hin as [E|Hin].
  - inversion E; subst. rewrite eqb_refl. reflexivity.
  - destruct (eqb k k') eqn:E; [|apply IH; assumption].
    apply eqb_true in E; subst k'. exfalso. apply Hx. apply in_map_iff. exists (k, v). auto.
Qed.

Lemma In_decls kw text k ws : In (k :: ws) text -> is_decl kw (k :: ws) = true -> In (k, ws) (decls kw text).
Proof.
  intros Hin Hd. unfold decls. apply in_flat_map. exists (k :: ws). split; [exact Hin|].
  rewrite (decl_of_decl _ _ _ Hd). left; reflexivity.
Qed.

Lemma parse_automaton_Some sre lre kw text A :
  parse_automaton sre lre kw text = Some A ->
  A = text_aut kw text /\ (forall l, In l text -> line_ok sre lre kw l = true) /\ NoDup (map fst (decls kw text)).
Proof.
  rewrite parse_automaton_spec. unfold text_ok.
  destruct (forallb (line_ok sre lre kw) text) eqn:Hok; [|discriminate].
  destruct (has_dup (map fst (decls kw text))) eqn:Hd; [discriminate|]. cbn.
  intros E; inversion E; subst. repeat split.
  - apply forallb_forall; exact Hok.
  - apply has_dup_NoDup; exact Hd.
Qed.

Lemma is_decl_initial kw ws : is_decl kw (kw_initial :: ws) = true.
Proof. reflexivity. Qed.
Lemma is_decl_states kw ws : is_decl kw (kw_states :: ws) = true.
Proof. reflexivity. Qed.
Lemma is_decl_final kw ws : is_decl kw (kw_final :: ws) = true.
Proof. reflexivity. Qed.

Lemma parsed_field sre lre kw text A k ws :
  parse_automaton sre lre kw text = Some A -> In (k :: ws) text -> is_decl kw (k :: ws) = true ->
  lookup k (a_items A) = Some ws.
Proof.
  intros Hp Hin Hd. apply parse_automaton_Some in Hp. destruct Hp as [-> [Hok Hn]].
  cbn [text_aut a_items]. apply lookup_NoDup_In; [exact Hn | apply In_decls; assumption].
Qed.

Theorem initial_line_count_rejected : forall sre lre kw text A ws,
  parse_automaton sre lre kw text = Some A -> In (kw_initial :: ws) text -> length ws <> 1 ->
  build_dfa sre A = None /\ build_nfa sre A = None /\ build_pda sre A = None /\ build_tm sre A = None.
Proof.
  intros sre lre kw text A ws Hp Hin Hl.
  apply parse_automaton_Some in Hp. destruct Hp as [-> [Hok Hn]].
  apply initial_count_rejected. cbn [text_aut a_init]. unfold field.
  rewrite (lookup_NoDup_In kw_initial ws _ Hn (In_decls kw _ _ _ Hin (is_decl_initial kw ws))).
  specialize (Hok _ Hin). unfold line_ok in Hok. cbn [starts_percent] in Hok.
  change (negb (has_dup ws) && forallb sre ws = true) in Hok.
  apply andb_true_iff in Hok. destruct Hok as [Hd _]. apply negb_true_iff in Hd.
  rewrite (has_dup_dedup _ Hd). exact Hl.
Qed.

Theorem no_initial_line_rejected : forall sre lre kw text A,
  parse_automaton sre lre kw text = Some A -> (forall ws, ~ In (kw_initial :: ws) text) ->
  build_dfa sre A = None /\ build_nfa sre A = None /\ build_pda sre A = None /\ build_tm sre A = None.
Proof.
  intros sre lre kw text A Hp Hno.
  apply parse_automaton_Some in Hp. destruct Hp as [-> _].
  apply no_initial_rejected. cbn [text_aut a_init]. unfold field.
  destruct (lookup kw_initial (decls kw text)) as [ws|] eqn:E; [|reflexivity].
  exfalso. apply lookup_In in E. unfold decls in E. apply in_flat_map in E. destruct E as [l [Hl Hd]].
  destruct (decl_of_cases kw l) as [E|[k [ws' [E [El _]]]]]; rewrite E in Hd; [destruct Hd|].
  destruct Hd as [Hd|[]]. inversion Hd; subst. apply (Hno ws). exact Hl.
Qed.

(* B5: undeclared states *)
Theorem undeclared_state_rejected : forall sre A s,
  a_states A <> [] -> In s (used_states A) -> ~ In s (a_states A) ->
  build_dfa sre A = None /\ build_nfa sre A = None /\ build_pda sre A = None /\ build_tm sre A = None.
Proof.
  intros sre A s Hne Hu Hn.
  assert (Hs : states_or_used A = a_states A).
  { unfold states_or_used. destruct (a_states A); [contradiction | reflexivity]. }
  assert (Ht : forall qa qr, tm_states A qa qr = a_states A).
  { intros qa qr. unfold tm_states. destruct (a_states A); [contradiction | reflexivity]. }
  repeat split.
  - apply build_dfa_check. rewrite Hs. apply (check_common_undeclared _ _ _ s); assumption.
  - apply build_nfa_check. rewrite Hs. apply (check_common_undeclared _ _ _ s); assumption.
  - apply build_pda_check. rewrite Hs. apply (check_common_undeclared _ _ _ s); assumption.
  - apply build_tm_check. intros qa qr. rewrite Ht. apply (check_common_undeclared _ _ _ s); assumption.
Qed.

(* B6: undeclared symbols *)
Lemma get_symbol_set_undeclared A k decl used a :
  lookup k (a_items A) = Some decl -> In a used -> ~ In a decl -> get_symbol_set A k used = None.
Proof.
  intros Hl Hu Hn. unfold get_symbol_set. rewrite Hl.
  destruct (subsetb used (dedup decl)) eqn:E; [|reflexivity].
  apply subsetb_incl in E. exfalso. apply Hn. apply (dedup_In a decl). apply E, Hu.
Qed.

Theorem undeclared_symbol_rejected_dfa : forall sre A decl p a q,
  lookup kw_input_symbols (a_items A) = Some decl -> In (p, a, q) (a_trans A) -> ~ In a decl ->
  build_dfa sre A = None.
Proof.
  intros sre A decl p a q Hl Ht Hn. unfold build_dfa.
  destruct (negb (check_common sre (states_or_used A) A)); [reflexivity|].
  destruct (negb (Nat.eqb _ _)); [reflexivity|].
  rewrite (get_symbol_set_undeclared A kw_input_symbols decl _ a Hl); [reflexivity | | exact Hn].
  apply dedup_In. rewrite map_map. apply in_map_iff. exists (p, a, q). split; [reflexivity | exact Ht].
Qed.

Theorem undeclared_symbol_rejected_nfa : forall sre A decl p a q,
  lookup kw_input_symbols (a_items A) = Some decl -> In (p, a, q) (a_trans A) -> ~ In a decl ->
  (forall eps, parse_symbol A kw_epsilon c_eps [c_underscore] = Some eps -> a <> eps) ->
  build_nfa sre A = None.
Proof.
  intros sre A decl p a q Hl Ht Hn He. unfold build_nfa.
  destruct (negb (check_common sre (states_or_used A) A)); [reflexivity|].
  destruct (parse_symbol A kw_epsilon c_eps [c_underscore]) as [eps|]; [|reflexivity].
  rewrite (get_symbol_set_undeclared A kw_input_symbols decl _ a Hl); [reflexivity | | exact Hn].
  apply dedup_In. apply filter_In. split.
  - apply in_map_iff. exists (p, a, q). split; [reflexivity | exact Ht].
  - apply negb_true_iff. apply eqb_neq. apply He. reflexivity.
Qed.

Theorem undeclared_symbol_rejected_pda : forall sre A decl p l q,
  In (p, l, q) (a_trans A) ->
  (forall eps, parse_symbol A kw_epsilon c_eps [c_underscore] = Some eps ->
     (lookup kw_input_symbols (a_items A) = Some decl /\ lbl l 0 <> eps /\ ~ In (lbl l 0) decl) \/
     (lookup kw_stack_symbols (a_items A) = Some decl /\
      ((lbl l 2 <> eps /\ ~ In (lbl l 2) decl) \/ (lbl l 3 <> eps /\ ~ In (lbl l 3) decl)))) ->
  build_pda sre A = None.
Proof.
  intros sre A decl p l q Ht He. unfold build_pda.
  destruct (negb (check_common sre (states_or_used A) A)); [reflexivity|].
  destruct (parse_symbol A kw_epsilon c_eps [c_underscore]) as [eps|]; [|reflexivity].
  assert (Hl : In l (map (fun t : token * token * token => let '(_, a, _) := t in a) (a_trans A))).
  { apply in_map_iff. exists (p, l, q). split; [reflexivity | exact Ht]. }
  destruct (He eps eq_refl) as [[Hlk [Hne Hn]]|[Hlk Hst]].
  - rewrite (get_symbol_set_undeclared A kw_input_symbols decl _ (lbl l 0) Hlk); [reflexivity | | exact Hn].
    apply dedup_In. apply filter_In. split.
    + apply in_map_iff. exists l. split; [reflexivity | exact Hl].
    + apply negb_true_iff, eqb_neq, Hne.
  - destruct (get_symbol_set A kw_input_symbols _); [|reflexivity].
    destruct Hst as [[Hne Hn]|[Hne Hn]].
    + rewrite (get_symbol_set_undeclared A kw_stack_symbols decl _ (lbl l 2) Hlk); [reflexivity | | exact Hn].
      apply dedup_In. apply filter_In. split.
      * apply in_flat_map. exists l. split; [exact Hl | cbn; auto].
      * apply negb_true_iff, eqb_neq, Hne.
    + rewrite (get_symbol_set_undeclared A kw_stack_symbols decl _ (lbl l 3) Hlk); [reflexivity | | exact Hn].
      apply dedup_In. apply filter_In. split.
      * apply in_flat_map. exists l. split; [exact Hl | cbn; auto].
      * apply negb_true_iff, eqb_neq, Hne.
Qed.

Theorem undeclared_symbol_rejected_tm : forall sre A decl p l q,
  lookup kw_tape_symbols (a_items A) = Some decl -> In (p, l, q) (a_trans A) ->
  ~ In (lbl l 0) decl \/ ~ In (lbl l 1) decl ->
  build_tm sre A = None.
Proof.
  intros sre A decl p l q Hlk Ht Hn. unfold build_tm.
  destruct (get_single A kw_accept _) as [qa|]; [|reflexivity].
  destruct (get_single A kw_reject _) as [qr|]; [|reflexivity].
  destruct (negb (check_common sre _ A)); [reflexivity|].
  destruct (parse_symbol A kw_blank c_box [c_underscore]) as [blank|]; [|reflexivity].
  assert (Hl : In l (map (fun t : token * token * token => let '(_, a, _) := t in a) (a_trans A))).
  { apply in_map_iff. exists (p, l, q). split; [reflexivity | exact Ht]. }
  destruct Hn as [Hn|Hn].
  - rewrite (get_symbol_set_undeclared A kw_tape_symbols decl _ (lbl l 0) Hlk); [reflexivity | | exact Hn].
    apply dedup_In. apply in_flat_map. exists l. split; [exact Hl | cbn; auto].
  - rewrite (get_symbol_set_undeclared A kw_tape_symbols decl _ (lbl l 1) Hlk); [reflexivity | | exact Hn].
    apply dedup_In. apply in_flat_map. exists l. split; [exact Hl | cbn; auto].
Qed.

(* B7: DFA determinism and totality *)
Definition dfa_keys (A : automaton) : list (token * token) := map (fun t => let '(p, a, _) := t in (p, a)) (a_trans A).

Theorem nondeterministic_rejected : forall sre A, ~ NoDup (dfa_keys A) -> build_dfa sre A = None.
Proof.
  intros sre A Hn. unfold build_dfa.
  destruct (negb (check_common sre (states_or_used A) A)); [reflexivity|].
  fold (dfa_keys A).
  destruct (Nat.eqb (length (dedup (dfa_keys A))) (length (dfa_keys A))) eqn:E; [|reflexivity].
  apply Nat.eqb_eq, dedup_length_NoDup in E. contradiction.
Qed.

Theorem nondeterministic_rejected_two : forall sre A t1 t2 t3 p a q1 q2,
  a_trans A = t1 ++ (p, a, q1) :: t2 ++ (p, a, q2) :: t3 -> build_dfa sre A = None.
Proof.
  intros sre A t1 t2 t3 p a q1 q2 Ht. apply nondeterministic_rejected.
  unfold dfa_keys. rewrite Ht, map_app. cbn [map]. rewrite map_app. cbn [map].
  intros Hn. apply NoDup_remove_2 in Hn. apply Hn. rewrite !in_app_iff. cbn [In]. tauto.
Qed.

Theorem not_total_rejected : forall sre A sigma p a,
  get_symbol_set A kw_input_symbols (dedup (map snd (dfa_keys A))) = Some sigma ->
  In p (states_or_used A) -> In a sigma -> (forall q, ~ In (p, a, q) (a_trans A)) ->
  build_dfa sre A = None.
Proof.
  intros sre A sigma p a Hs Hp Ha Hno. unfold build_dfa.
  destruct (negb (check_common sre (states_or_used A) A)); [reflexivity|].
  destruct (negb (Nat.eqb _ _)); [reflexivity|].
  fold (dfa_keys A). rewrite Hs.
  destruct (negb (forallb re_word sigma)); [reflexivity|].
  match goal with |- (if negb ?b then _ else _) = _ => destruct b eqn:E end; [|reflexivity].
  exfalso. rewrite forallb_forall in E. specialize (E p Hp). rewrite forallb_forall in E. specialize (E a Ha).
  apply mem_In in E. unfold dfa_keys in E. apply in_map_iff in E. destruct E as [[[p' a'] q] [E Hin]].
  inversion E; subst. apply (Hno q). exact Hin.
Qed.

(* ------------------------------------------------------------------ *)
(* Part C: insensitivity to layout                                     *)
(* ------------------------------------------------------------------ *)
(* C.1 comment lines and blank lines *)
Lemma parse_line_comment sre lre kw oA l : is_comment l = true -> parse_line sre lre kw oA l = oA.
Proof.
  intros Hc. destruct oA as [A|]; [|reflexivity].
  destruct l as [|w0 ws]; [reflexivity|]. cbn [is_comment] in Hc. unfold starts_percent in Hc.
  cbn [parse_line]. rewrite Hc. reflexivity.
Qed.

Theorem comment_line_irrelevant : forall sre lre kw t1 l t2,
  is_comment l = true -> parse_automaton sre lre kw (t1 ++ l :: t2) = parse_automaton sre lre kw (t1 ++ t2).
Proof.
  intros sre lre kw t1 l t2 Hc. rewrite !parse_automaton_app. cbn [fold_left].
  rewrite (parse_line_comment _ _ _ _ _ Hc). reflexivity.
Qed.

Theorem comments_irrelevant : forall sre lre kw text,
  parse_automaton sre lre kw (filter (fun l => negb (is_comment l)) text) = parse_automaton sre lre kw text.
Proof.
  intros sre lre kw text. unfold parse_automaton. generalize (Some (mkAut [] [] [] [] [])).
  induction text as [|l text IH]; intros oA; [reflexivity|].
  cbn [filter fold_left]. destruct (is_comment l) eqn:Hc; cbn [negb].
  - rewrite (parse_line_comment _ _ _ _ _ Hc). apply IH.
  - cbn [fold_left]. apply IH.
Qed.

Corollary comments_irrelevant_parsers : forall text,
  let text' := filter (fun l => negb (is_comment l)) text in
  (forall sre, parse_dfa_with sre text' = parse_dfa_with sre text) /\ parse_nfa text' = parse_nfa text /\
  parse_pda text' = parse_pda text /\ parse_tm text' = parse_tm text.
Proof.
  intros text text'. unfold text'.
  repeat split; [intros sre; rewrite !parse_dfa_with_unfold | rewrite !parse_nfa_unfold | rewrite !parse_pda_unfold | rewrite !parse_tm_unfold];
    rewrite comments_irrelevant; reflexivity.
Qed.

(* C.2 splitting the labels of a transition line over two lines *)
Lemma parse_line_split sre lre kw oA p q l1 l2 :
  is_trans kw [p] = true -> l1 <> [] -> l2 <> [] ->
  parse_line sre lre kw (parse_line sre lre kw oA (p :: q :: l1)) (p :: q :: l2) =
  parse_line sre lre kw oA (p :: q :: l1 ++ l2).
Proof.
  intros Ht H1 H2. destruct oA as [A|]; [|reflexivity].
  apply is_trans_cons in Ht. destruct Ht as [Hp Hr].
  apply is_reserved_false in Hr. destruct Hr as [Hs [Hf [Hi Hk]]]. unfold starts_percent in Hp.
  destruct l1 as [|a1 l1]; [contradiction|]. destruct l2 as [|a2 l2]; [contradiction|].
  cbn [parse_line app]. rewrite Hp, Hs, Hf, Hi, Hk.
  change (forallb lre (a1 :: l1 ++ a2 :: l2)) with (forallb lre ((a1 :: l1) ++ a2 :: l2)). rewrite forallb_app.
  destruct (sre p) eqn:Esp; cbn [andb]; [|reflexivity].
  destruct (sre q) eqn:Esq; cbn [andb]; [|reflexivity].
  destruct (forallb lre (a1 :: l1)); cbn [andb]; [|reflexivity].
  cbn [parse_line]. rewrite Hp, Hs, Hf, Hi, Hk, Esp, Esq. cbn [andb].
  destruct (forallb lre (a2 :: l2)); [|reflexivity].
  cbn [a_states a_trans a_init a_final a_items].
  change (a1 :: l1 ++ a2 :: l2) with ((a1 :: l1) ++ a2 :: l2). rewrite map_app, app_assoc. reflexivity.
Qed.

Theorem label_split_irrelevant : forall sre lre kw t1 t2 p q l1 l2,
  is_trans kw [p] = true -> l1 <> [] -> l2 <> [] ->
  parse_automaton sre lre kw (t1 ++ (p :: q :: l1) :: (p :: q :: l2) :: t2) =
  parse_automaton sre lre kw (t1 ++ (p :: q :: l1 ++ l2) :: t2).
Proof.
  intros sre lre kw t1 t2 p q l1 l2 Ht H1 H2. rewrite !parse_automaton_app. cbn [fold_left].
  rewrite (parse_line_split sre lre kw _ p q l1 l2 Ht H1 H2). reflexivity.
Qed.

(* C.3 the order of the lines matters only for the order of a_trans / a_items *)
Definition aut_equiv (A B : automaton) : Prop :=
  a_states A = a_states B /\ a_init A = a_init B /\ a_final A = a_final B /\
  Permutation (a_trans A) (a_trans B) /\ Permutation (a_items A) (a_items B) /\
  (forall k, lookup k (a_items A) = lookup k (a_items B)).
Definition opt_rel {X} (R : X -> X -> Prop) (o1 o2 : option X) : Prop :=
  match o1, o2 with Some x, Some y => R x y | None, None => True | _, _ => False end.

Lemma lookup_perm {K V} `{Eqb K} (k : K) (m m' : list (K * V)) :
  NoDup (map fst m) -> Permutation m m' -> lookup k m = lookup k m'.
Proof.
  intros Hn Hp.
  assert (Hn' : NoDup (map fst m')) by (apply (Permutation_NoDup (Permutation_map fst Hp)); exact Hn).
  destruct (lookup k m) as [v|] eqn:E.
  - symmetry. apply lookup_NoDup_In; [exact Hn'|]. apply (Permutation_in _ Hp). apply lookup_In; exact E.
  - symmetry. apply lookup_None. intros v Hc. rewrite lookup_None in E. apply (E v).
    apply (Permutation_in _ (Permutation_sym Hp)). exact Hc.
Qed.

Lemma forallb_perm {X} (f : X -> bool) l l' : Permutation l l' -> forallb f l = forallb f l'.
Proof.
  intros Hp. destruct (forallb f l) eqn:E; symmetry.
  - rewrite forallb_forall in *. intros x Hx. apply E. apply (Permutation_in _ (Permutation_sym Hp)); exact Hx.
  - destruct (forallb f l') eqn:E'; [|reflexivity]. rewrite forallb_forall in E'.
    assert (Hc : forallb f l = true).
    { apply forallb_forall. intros x Hx. apply E'. apply (Permutation_in _ Hp); exact Hx. }
    congruence.
Qed.

Lemma has_dup_perm l l' : Permutation l l' -> has_dup l = has_dup l'.
Proof.
  intros Hp. destruct (has_dup l) eqn:E; symmetry.
  - destruct (has_dup l') eqn:E'; [reflexivity|]. apply has_dup_NoDup in E'.
    apply (Permutation_NoDup (Permutation_sym Hp)) in E'. apply has_dup_NoDup in E'. congruence.
  - apply has_dup_NoDup. apply has_dup_NoDup in E. apply (Permutation_NoDup Hp E).
Qed.

Lemma text_ok_perm sre lre kw t t' : Permutation t t' -> text_ok sre lre kw t = text_ok sre lre kw t'.
Proof.
  intros Hp. unfold text_ok. rewrite (forallb_perm _ _ _ Hp). f_equal. f_equal.
  apply has_dup_perm. apply Permutation_map. unfold decls. apply Permutation_flat_map; exact Hp.
Qed.

Theorem line_order_irrelevant : forall sre lre kw text text',
  Permutation text text' ->
  opt_rel aut_equiv (parse_automaton sre lre kw text) (parse_automaton sre lre kw text').
Proof.
  intros sre lre kw text text' Hp. rewrite !parse_automaton_spec, <- (text_ok_perm sre lre kw _ _ Hp).
  unfold text_ok. destruct (forallb (line_ok sre lre kw) text); cbn [andb opt_rel]; [|exact I].
  destruct (has_dup (map fst (decls kw text))) eqn:Hd; cbn [negb opt_rel]; [exact I|].
  apply has_dup_NoDup in Hd.
  assert (Hpd : Permutation (decls kw text) (decls kw text')) by (apply Permutation_flat_map; exact Hp).
  unfold aut_equiv, text_aut, field. cbn [a_states a_init a_final a_trans a_items].
  rewrite <- !(lookup_perm _ _ _ Hd Hpd). repeat split.
  - apply Permutation_flat_map; exact Hp.
  - exact Hpd.
  - intros k. apply lookup_perm; assumption.
Qed.

(* ------------------------------------------------------------------ *)
(* Part D: print / parse round trips                                   *)
(* ------------------------------------------------------------------ *)
Lemma filter_all {X} (f : X -> bool) l : (forall x, In x l -> f x = true) -> filter f l = l.
Proof.
  induction l as [|x l IH]; intros Hf; [reflexivity|].
  cbn [filter]. rewrite (Hf x (or_introl eq_refl)). f_equal. apply IH. intros y Hy. apply Hf. right; exact Hy.
Qed.

Lemma filter_or_perm {X} (f g : X -> bool) l :
  (forall x, In x l -> f x = true -> g x = false) ->
  Permutation (filter f l ++ filter g l) (filter (fun x => f x || g x) l).
Proof.
  induction l as [|x l IH]; intros Hd; [constructor|].
  assert (IH' : Permutation (filter f l ++ filter g l) (filter (fun x => f x || g x) l)).
  { apply IH. intros y Hy. apply Hd. right; exact Hy. }
  cbn [filter]. destruct (f x) eqn:Ef; cbn [orb].
  - rewrite (Hd x (or_introl eq_refl) Ef). cbn [app]. constructor. exact IH'.
  - destruct (g x); [|exact IH'].
    apply Permutation_sym. apply Permutation_cons_app. apply Permutation_sym. exact IH'.
Qed.

Lemma flat_map_filter_perm {X K} `{Eqb K} (key : X -> K) (L : list K) (l : list X) :
  NoDup L ->
  Permutation (flat_map (fun k => filter (fun t => eqb (key t) k) l) L) (filter (fun t => mem (key t) L) l).
Proof.
  induction L as [|k L IH]; intros Hn.
  - cbn [flat_map mem existsb]. induction l as [|x l IHl]; [constructor | exact IHl].
  - inversion Hn as [|k' L' Hk HL]; subst. cbn [flat_map].
    eapply Permutation_trans; [apply Permutation_app_head; apply IH; exact HL|].
    apply (filter_or_perm (fun t => eqb (key t) k) (fun t => mem (key t) L)).
    intros x _ Ex. apply eqb_true in Ex. subst k. apply mem_nIn. exact Hk.
Qed.

Lemma flat_map_ext_in {X Y} (f g : X -> list Y) l : (forall x, In x l -> f x = g x) -> flat_map f l = flat_map g l.
Proof.
  induction l as [|x l IH]; intros He; [reflexivity|].
  cbn [flat_map]. rewrite (He x (or_introl eq_refl)). f_equal. apply IH. intros y Hy. apply He. right; exact Hy.
Qed.

Lemma flat_map_map {X Y Z} (f : Y -> list Z) (g : X -> Y) l : flat_map f (map g l) = flat_map (fun x => f (g x)) l.
Proof. induction l as [|x l IH]; [reflexivity|]. cbn [map flat_map]. rewrite IH. reflexivity. Qed.

Lemma flat_map_nil {X Y} (f : X -> list Y) l : (forall x, In x l -> f x = []) -> flat_map f l = [].
Proof.
  induction l as [|x l IH]; intros He; [reflexivity|].
  cbn [flat_map]. rewrite (He x (or_introl eq_refl)). apply IH. intros y Hy. apply He. right; exact Hy.
Qed.

Definition pair_of (t : token * token * token) : token * token := let '(p, _, q) := t in (p, q).
Definition label_of (t : token * token * token) : token := let '(_, a, _) := t in a.

Section GroupLines.
  Variable ordP : list (token * token) -> list (token * token).
  Hypothesis ordP_perm : forall l, Permutation (ordP l) l.
  Variables (sre lre : token -> bool) (kw : list token).

  Definition pairs_of (trs : list (token * token * token)) : list (token * token) := ordP (dedup (map pair_of trs)).
  Definition regroup (trs : list (token * token * token)) : list (token * token * token) :=
    flat_map (fun pq => filter (fun t => eqb (pair_of t) pq) trs) (pairs_of trs).

  Lemma group_lines_unfold trs :
    group_lines ordP trs =
    map (fun pq => fst pq :: snd pq :: map label_of (filter (fun t => eqb (pair_of t) pq) trs)) (pairs_of trs).
  Proof.
    unfold group_lines, pairs_of. apply map_ext. intros pq. f_equal. f_equal. f_equal.
    apply filter_ext. intros [[p a] q]. reflexivity.
  Qed.

  Lemma pairs_of_In trs pq : In pq (pairs_of trs) <-> exists t, In t trs /\ pair_of t = pq.
  Proof.
    unfold pairs_of. split.
    - intros Hin. apply (Permutation_in _ (ordP_perm _)) in Hin. apply dedup_In, in_map_iff in Hin.
      destruct Hin as [t [E Ht]]. exists t. auto.
    - intros [t [Ht E]]. apply (Permutation_in _ (Permutation_sym (ordP_perm _))).
      apply dedup_In, in_map_iff. exists t. auto.
  Qed.

  Lemma pairs_of_NoDup trs : NoDup (pairs_of trs).
  Proof. unfold pairs_of. apply (Permutation_NoDup (Permutation_sym (ordP_perm _))). apply dedup_NoDup. Qed.

  Lemma regroup_perm trs : Permutation (regroup trs) trs.
  Proof.
    unfold regroup.
    eapply Permutation_trans; [apply (flat_map_filter_perm pair_of (pairs_of trs) trs (pairs_of_NoDup trs))|].
    rewrite filter_all; [apply Permutation_refl|].
    intros t Ht. apply mem_In. apply pairs_of_In. exists t. auto.
  Qed.

  Lemma regroup_line trs pq :
    map (fun a => (fst pq, a, snd pq)) (map label_of (filter (fun t => eqb (pair_of t) pq) trs)) =
    filter (fun t => eqb (pair_of t) pq) trs.
  Proof.
    rewrite map_map. rewrite <- (map_id (filter _ trs)) at 2. apply map_ext_in.
    intros [[p a] q] Hin. apply filter_In in Hin. destruct Hin as [_ E]. apply eqb_true in E. subst pq. reflexivity.
  Qed.

  Lemma group_lines_transs trs :
    (forall p a q, In (p, a, q) trs -> is_trans kw [p] = true) ->
    transs kw (group_lines ordP trs) = regroup trs.
  Proof.
    intros Hsrc. rewrite group_lines_unfold. unfold transs, regroup. rewrite flat_map_map.
    apply flat_map_ext_in. intros [p q] Hin. cbn [fst snd].
    apply pairs_of_In in Hin. destruct Hin as [[[p' a] q'] [Ht E]]. cbn in E. inversion E; subst p' q'.
    unfold trans_of.
    assert (Hit : is_trans kw (p :: q :: map label_of (filter (fun t => eqb (pair_of t) (p, q)) trs)) = true).
    { apply is_trans_cons. apply (is_trans_cons kw p []). apply (Hsrc p a q Ht). }
    rewrite Hit. apply (regroup_line trs (p, q)).
  Qed.

  Lemma group_lines_decls trs :
    (forall p a q, In (p, a, q) trs -> is_trans kw [p] = true) ->
    decls kw (group_lines ordP trs) = [].
  Proof.
    intros Hsrc. rewrite group_lines_unfold. unfold decls. rewrite flat_map_map.
    apply flat_map_nil. intros [p q] Hin. cbn [fst snd].
    apply pairs_of_In in Hin. destruct Hin as [[[p' a] q'] [Ht E]]. cbn in E. inversion E; subst p' q'.
    specialize (Hsrc p a q Ht). unfold decl_of.
    unfold is_trans in Hsrc. apply andb_true_iff in Hsrc. destruct Hsrc as [_ Hd].
    apply negb_true_iff in Hd. unfold is_decl in *. rewrite Hd. reflexivity.
  Qed.

  Lemma group_lines_ok trs :
    (forall p a q, In (p, a, q) trs -> is_trans kw [p] = true /\ sre p = true /\ sre q = true /\ lre a = true) ->
    forallb (line_ok sre lre kw) (group_lines ordP trs) = true.
  Proof.
    intros Hsrc. rewrite group_lines_unfold. apply forallb_forall. intros l Hl.
    apply in_map_iff in Hl. destruct Hl as [[p q] [<- Hin]]. cbn [fst snd].
    apply pairs_of_In in Hin. destruct Hin as [[[p' a] q'] [Ht E]]. cbn in E. inversion E; subst p' q'.
    destruct (Hsrc p a q Ht) as [Hit [Hp [Hq Ha]]].
    rewrite line_ok_trans; [|apply is_trans_cons; apply (is_trans_cons kw p []); exact Hit].
    assert (Hin : In a (map label_of (filter (fun t => eqb (pair_of t) (p, q)) trs))).
    { apply in_map_iff. exists (p, a, q). split; [reflexivity|]. apply filter_In. split; [exact Ht | apply eqb_refl]. }
    assert (Hall : forallb lre (map label_of (filter (fun t => eqb (pair_of t) (p, q)) trs)) = true).
    { apply forallb_forall. intros b Hb. apply in_map_iff in Hb. destruct Hb as [[[p1 b1] q1] [<- Hb]].
      apply filter_In in Hb. destruct Hb as [Hb _]. apply (Hsrc p1 b1 q1 Hb). }
    destruct (map label_of (filter (fun t => eqb (pair_of t) (p, q)) trs)) as [|l1 lrest]; [destruct Hin|].
    rewrite Hp, Hq, Hall. reflexivity.
  Qed.

  (* a printed text = declaration header followed by the grouped transition lines *)
  Lemma parse_printed header trs :
    (forall l, In l header -> is_decl kw l = true /\ line_ok sre lre kw l = true) ->
    NoDup (map fst (decls kw header)) ->
    (forall p a q, In (p, a, q) trs -> is_trans kw [p] = true /\ sre p = true /\ sre q = true /\ lre a = true) ->
    parse_automaton sre lre kw (header ++ group_lines ordP trs) =
    Some (mkAut (field kw_states (decls kw header) []) (regroup trs) (field kw_initial (decls kw header) [])
                (field kw_final (decls kw header) []) (decls kw header)).
  Proof.
    intros Hh Hn Htrs.
    assert (Hsrc : forall p a q, In (p, a, q) trs -> is_trans kw [p] = true) by (intros p a q Hin; apply (Htrs p a q Hin)).
    rewrite parse_automaton_spec. unfold text_ok, text_aut.
    rewrite decls_app, transs_app, forallb_app, (group_lines_decls trs Hsrc), (group_lines_transs trs Hsrc), app_nil_r.
    rewrite (group_lines_ok trs Htrs), andb_true_r.
    assert (Hok : forallb (line_ok sre lre kw) header = true).
    { apply forallb_forall. intros l Hl. apply (Hh l Hl). }
    rewrite Hok. apply has_dup_NoDup in Hn. rewrite Hn. cbn [andb negb].
    assert (Ht : transs kw header = []).
    { unfold transs. apply flat_map_nil. intros l Hl. destruct (Hh l Hl) as [Hd _].
      unfold trans_of, is_trans. rewrite Hd, andb_false_r. reflexivity. }
    rewrite Ht. reflexivity.
  Qed.
End GroupLines.

(* ---- DFA ---- *)
Lemma states_or_used_decl A : a_states A <> [] -> states_or_used A = a_states A.
Proof. unfold states_or_used. destruct (a_states A); [contradiction | reflexivity]. Qed.

Lemma check_common_intro sre st A q0 :
  incl (used_states A) st -> (forall s, In s st -> sre s = true) -> a_init A = [q0] -> check_common sre st A = true.
Proof.
  intros Hu Hs Hi. unfold check_common. rewrite Hi.
  rewrite (proj2 (subsetb_incl _ _) Hu), (proj2 (forallb_forall _ _) Hs). reflexivity.
Qed.

Definition dfa_delta_of (trs : list (token * token * token)) : list ((token * token) * token) :=
  map (fun t => let '(p, a, q) := t in ((p, a), q)) trs.

Lemma dfa_delta_of_In trs p a q : In ((p, a), q) (dfa_delta_of trs) <-> In (p, a, q) trs.
Proof.
  unfold dfa_delta_of. rewrite in_map_iff. split.
  - intros [[[p' a'] q'] [E Hin]]. inversion E; subst. exact Hin.
  - intros Hin. exists (p, a, q). auto.
Qed.

Lemma build_dfa_intro sre A q0 decl :
  a_states A <> [] -> incl (used_states A) (a_states A) -> (forall s, In s (a_states A) -> sre s = true) ->
  a_init A = [q0] -> NoDup (dfa_keys A) -> lookup kw_input_symbols (a_items A) = Some decl ->
  (forall p a q, In (p, a, q) (a_trans A) -> In a decl) -> (forall a, In a decl -> re_word a = true) ->
  (forall p a, In p (a_states A) -> In a decl -> exists q, In (p, a, q) (a_trans A)) ->
  build_dfa sre A = Some (mkTDFA (a_states A) (dedup decl) (dfa_delta_of (a_trans A)) q0 (a_final A)).
Proof.
  intros Hne Hu Hs Hi Hn Hl Hsym Hre Htot.
  unfold build_dfa. rewrite (states_or_used_decl _ Hne), (check_common_intro sre _ A q0 Hu Hs Hi). cbn [negb].
  fold (dfa_keys A).
  rewrite (proj2 (Nat.eqb_eq _ _) (proj2 (dedup_length_NoDup _) Hn)). cbn [negb].
  unfold get_symbol_set. rewrite Hl.
  assert (Hsub : subsetb (dedup (map snd (dfa_keys A))) (dedup decl) = true).
  { apply subsetb_incl. intros a Ha. apply dedup_In. rewrite dedup_In in Ha. unfold dfa_keys in Ha.
    rewrite map_map in Ha. apply in_map_iff in Ha. destruct Ha as [[[p a'] q] [E Hin]]. cbn in E. subst a'.
    apply (Hsym p a q Hin). }
  rewrite Hsub.
  assert (Hw : forallb re_word (dedup decl) = true).
  { apply forallb_forall. intros a Ha. apply Hre. rewrite dedup_In in Ha. exact Ha. }
  rewrite Hw. cbn [negb].
  assert (Ht : forallb (fun p => forallb (fun a => mem (p, a) (dfa_keys A)) (dedup decl)) (a_states A) = true).
  { apply forallb_forall. intros p Hp. apply forallb_forall. intros a Ha. rewrite dedup_In in Ha.
    destruct (Htot p a Hp Ha) as [q Hq]. apply mem_In. unfold dfa_keys. apply in_map_iff. exists (p, a, q). auto. }
  rewrite Ht. cbn [negb]. rewrite Hi. cbn [hd]. fold (dfa_delta_of (a_trans A)).
  assert (Hwf : tdfa_wf_b (mkTDFA (a_states A) (dedup decl) (dfa_delta_of (a_trans A)) q0 (a_final A)) = true).
  { unfold tdfa_wf_b. cbn [tdQ tdS tdD tdq0 tdF]. rewrite !andb_true_iff. repeat split.
    - apply mem_In. apply Hu. apply used_states_In. left. rewrite Hi. left; reflexivity.
    - apply subsetb_incl. intros s Hsf. apply Hu. apply used_states_In. right; left. exact Hsf.
    - apply forallb_forall. intros [[p a] q] Hin. apply (proj1 (dfa_delta_of_In _ _ _ _)) in Hin.
      rewrite !andb_true_iff, !mem_In. repeat split.
      + apply Hu. apply used_states_In. right; right. exists p, a, q. auto.
      + apply dedup_In. apply (Hsym p a q Hin).
      + apply Hu. apply used_states_In. right; right. exists p, a, q. auto.
    - apply forallb_forall. intros p Hp. apply forallb_forall. intros a Ha. rewrite dedup_In in Ha.
      destruct (Htot p a Hp Ha) as [q Hq].
      destruct (lookup (p, a) (dfa_delta_of (a_trans A))) eqn:E; [reflexivity|].
      exfalso. rewrite lookup_None in E. apply (E q). apply (proj2 (dfa_delta_of_In _ _ _ _)). exact Hq. }
  rewrite Hwf. reflexivity.
Qed.

Definition tdfa_equiv (D D' : tdfa) : Prop :=
  seteq (tdQ D) (tdQ D') /\ seteq (tdS D) (tdS D') /\ seteq (tdD D) (tdD D') /\
  (forall k, lookup k (tdD D) = lookup k (tdD D')) /\ tdq0 D = tdq0 D' /\ seteq (tdF D) (tdF D').

Lemma re_word_not_percent q : re_word q = true -> starts_percent q = false.
Proof.
  destruct q as [|c q]; [discriminate|]. cbn [re_word forallb starts_percent]. intros Hw.
  apply andb_true_iff in Hw. destruct Hw as [Hc _].
  destruct (Nat.eqb c c_percent) eqn:E; [|reflexivity]. apply Nat.eqb_eq in E. subst c. discriminate.
Qed.

Lemma re_word_re_any a : re_word a = true -> re_any a = true.
Proof. destruct a; [discriminate | reflexivity]. Qed.

Lemma good_state_trans kw q : re_word q = true -> is_reserved kw q = false -> is_trans kw [q] = true.
Proof. intros Hw Hr. apply is_trans_cons. split; [apply re_word_not_percent; exact Hw | exact Hr]. Qed.

Lemma seteq_perm {X} (l l' : list X) : Permutation l l' -> seteq l l'.
Proof.
  intros Hp x. split; [apply (Permutation_in _ Hp) | apply (Permutation_in _ (Permutation_sym Hp))].
Qed.

Lemma perm_has_dup_false l l' : Permutation l' l -> NoDup l -> has_dup l' = false.
Proof. intros Hp Hn. apply has_dup_NoDup. apply (Permutation_NoDup (Permutation_sym Hp) Hn). Qed.

Lemma forallb_perm_true {X} (f : X -> bool) l l' : Permutation l' l -> (forall x, In x l -> f x = true) -> forallb f l' = true.
Proof. intros Hp Hf. apply forallb_forall. intros x Hx. apply Hf. apply (Permutation_in _ Hp Hx). Qed.

Section RoundTrip.
  Variable ord : list token -> list token.
  Variable ordP : list (token * token) -> list (token * token).
  Hypothesis ord_perm : forall l, Permutation (ord l) l.
  Hypothesis ordP_perm : forall l, Permutation (ordP l) l.

  Definition dfa_trs (D : tdfa) : list (token * token * token) := map (fun e => let '((p, a), q) := e in (p, a, q)) (tdD D).

  Lemma dfa_trs_In D p a q : In (p, a, q) (dfa_trs D) <-> In ((p, a), q) (tdD D).
  Proof.
    unfold dfa_trs. rewrite in_map_iff. split.
    - intros [[[p' a'] q'] [E Hin]]. inversion E; subst. exact Hin.
    - intros Hin. exists ((p, a), q). auto.
  Qed.

  Lemma dfa_delta_of_trs D : dfa_delta_of (dfa_trs D) = tdD D.
  Proof.
    unfold dfa_delta_of, dfa_trs. rewrite map_map. rewrite <- (map_id (tdD D)) at 2.
    apply map_ext. intros [[p a] q]. reflexivity.
  Qed.

  Theorem print_parse_dfa : forall D,
    tdfa_wf_b D = true -> NoDup (tdQ D) -> NoDup (tdF D) -> NoDup (map fst (tdD D)) ->
    (forall q, In q (tdQ D) -> re_word q = true) ->
    (forall p a q, In ((p, a), q) (tdD D) -> is_reserved kw_dfa p = false) ->
    (forall a, In a (tdS D) -> re_word a = true) ->
    exists D', parse_dfa (print_dfa ord ordP D) = Some D' /\ tdfa_equiv D D'.
  Proof.
    intros D Hwf HnQ HnF HnD HQ Hsrc HS.
    unfold tdfa_wf_b in Hwf. rewrite !andb_true_iff in Hwf. destruct Hwf as [[[Hq0 HF] HD] Htot].
    apply mem_In in Hq0. apply subsetb_incl in HF. rewrite forallb_forall in HD, Htot.
    assert (HDs : forall p a q, In ((p, a), q) (tdD D) -> In p (tdQ D) /\ In a (tdS D) /\ In q (tdQ D)).
    { intros p a q Hin. specialize (HD _ Hin). cbn in HD. rewrite !andb_true_iff, !mem_In in HD. tauto. }
    set (header := [kw_states :: ord (tdQ D); kw_final :: ord (tdF D); [kw_initial; tdq0 D]; kw_input_symbols :: ord (tdS D)]).
    set (items := [(kw_states, ord (tdQ D)); (kw_final, ord (tdF D)); (kw_initial, [tdq0 D]); (kw_input_symbols, ord (tdS D))]).
    assert (Hdecl : decls kw_dfa header = items) by reflexivity.
    assert (HordQ : ord (tdQ D) <> []).
    { intros E. pose proof (Permutation_in _ (Permutation_sym (ord_perm (tdQ D))) Hq0) as Hc. rewrite E in Hc. destruct Hc. }
    assert (Hparse : parse_automaton re_word re_any kw_dfa (print_dfa ord ordP D) =
                     Some (mkAut (ord (tdQ D)) (regroup ordP (dfa_trs D)) [tdq0 D] (ord (tdF D)) items)).
    { change (print_dfa ord ordP D) with (header ++ group_lines ordP (dfa_trs D)).
      refine (eq_trans (parse_printed ordP ordP_perm re_word re_any kw_dfa header (dfa_trs D) _ _ _) _).
      4:{ rewrite Hdecl. reflexivity. }
      - intros l Hl. split.
        + cbn in Hl. destruct Hl as [<-|[<-|[<-|[<-|[]]]]]; reflexivity.
        + cbn [header In] in Hl. destruct Hl as [<-|[<-|[<-|[<-|[]]]]].
          * unfold line_ok. cbn [starts_percent]. change (eqb kw_states kw_states) with true. cbv iota.
            rewrite (perm_has_dup_false _ _ (ord_perm _) HnQ).
            rewrite (forallb_perm_true re_word _ _ (ord_perm _) HQ).
            destruct (ord (tdQ D)); [contradiction | reflexivity].
          * unfold line_ok. cbn [starts_percent]. change (eqb kw_final kw_states) with false. change (eqb kw_final kw_final) with true. cbv iota. cbn [orb].
            rewrite (perm_has_dup_false _ _ (ord_perm _) HnF).
            rewrite (forallb_perm_true re_word (tdF D) _ (ord_perm _)); [reflexivity|].
            intros q Hq. apply (HQ q (HF q Hq)).
          * unfold line_ok. cbn [starts_percent]. change (eqb kw_initial kw_states) with false. change (eqb kw_initial kw_final) with false.
            change (eqb kw_initial kw_initial) with true. cbv iota. cbn [orb has_dup mem existsb negb forallb andb].
            rewrite (HQ _ Hq0). reflexivity.
          * reflexivity.
      - rewrite Hdecl. cbn [map fst items]. apply has_dup_NoDup. reflexivity.
      - intros p a q Hin. apply (proj1 (dfa_trs_In _ _ _ _)) in Hin. destruct (HDs p a q Hin) as [Hp [Ha Hq]].
        pose proof (HQ p Hp) as Hpw. pose proof (Hsrc p a q Hin) as Hpr. pose proof (HQ q Hq) as Hqw.
        repeat split; [apply good_state_trans; assumption | exact Hpw | exact Hqw | apply re_word_re_any, HS, Ha]. }
    pose proof (regroup_perm ordP ordP_perm (dfa_trs D)) as Hperm.
    set (A := mkAut (ord (tdQ D)) (regroup ordP (dfa_trs D)) [tdq0 D] (ord (tdF D)) items) in *.
    assert (HinT : forall p a q, In (p, a, q) (a_trans A) <-> In ((p, a), q) (tdD D)).
    { intros p a q. cbn [A a_trans]. rewrite <- dfa_trs_In. apply (seteq_perm _ _ Hperm). }
    assert (HordQ_In : forall q, In q (ord (tdQ D)) <-> In q (tdQ D)) by (intros q; apply (seteq_perm _ _ (ord_perm _))).
    assert (HordF_In : forall q, In q (ord (tdF D)) <-> In q (tdF D)) by (intros q; apply (seteq_perm _ _ (ord_perm _))).
    assert (HordS_In : forall q, In q (ord (tdS D)) <-> In q (tdS D)) by (intros q; apply (seteq_perm _ _ (ord_perm _))).
    assert (Hbuild : build_dfa re_word A = Some (mkTDFA (a_states A) (dedup (ord (tdS D))) (dfa_delta_of (a_trans A)) (tdq0 D) (a_final A))).
    { apply build_dfa_intro.
      - exact HordQ.
      - intros s Hs. apply used_states_In in Hs. cbn [A a_states a_init a_final] in *. apply HordQ_In.
        destruct Hs as [[<-|[]]|[Hs|[p [a [q [Ht Hs]]]]]].
        + exact Hq0.
        + apply HF, HordF_In, Hs.
        + apply (proj1 (HinT _ _ _)) in Ht. destruct (HDs p a q Ht) as [Hp [_ Hq]]. destruct Hs as [-> | ->]; assumption.
      - intros s Hs. apply HordQ_In in Hs. apply (HQ s Hs).
      - reflexivity.
      - unfold dfa_keys. cbn [A a_trans].
        assert (Hk : Permutation (map (fun t : token * token * token => let '(p, a, _) := t in (p, a)) (regroup ordP (dfa_trs D))) (map fst (tdD D))).
        { eapply Permutation_trans; [apply Permutation_map; exact Hperm|].
          unfold dfa_trs. rewrite map_map. erewrite map_ext; [apply Permutation_refl|]. intros [[p a] q]. reflexivity. }
        apply (Permutation_NoDup (Permutation_sym Hk) HnD).
      - reflexivity.
      - intros p a q Hin. apply (proj1 (HinT _ _ _)) in Hin. apply HordS_In. apply (HDs p a q Hin).
      - intros a Ha. apply HS, HordS_In, Ha.
      - intros p a Hp Ha. cbn [A a_states] in Hp. apply HordQ_In in Hp. apply HordS_In in Ha.
        specialize (Htot p Hp). rewrite forallb_forall in Htot. specialize (Htot a Ha).
        destruct (lookup (p, a) (tdD D)) as [q|] eqn:E; [|discriminate].
        exists q. apply (proj2 (HinT _ _ _)). apply lookup_In. exact E. }
    eexists. split.
    - unfold parse_dfa. rewrite parse_dfa_with_unfold, Hparse. exact Hbuild.
    - unfold tdfa_equiv. cbn [tdQ tdS tdD tdq0 tdF A a_states a_final a_trans].
      assert (HpD : Permutation (tdD D) (dfa_delta_of (regroup ordP (dfa_trs D)))).
      { rewrite <- (dfa_delta_of_trs D) at 1. unfold dfa_delta_of. apply Permutation_map. apply Permutation_sym. exact Hperm. }
      repeat split.
      + apply HordQ_In.
      + apply HordQ_In.
      + intros Hx. apply dedup_In, HordS_In, Hx.
      + intros Hx. apply HordS_In. rewrite dedup_In in Hx. exact Hx.
      + apply (seteq_perm _ _ HpD).
      + apply (seteq_perm _ _ HpD).
      + intros k. apply lookup_perm; assumption.
      + apply HordF_In.
      + apply HordF_In.
  Qed.
End RoundTrip.

(* ---- NFA ---- *)
Definition gstep (d : list ((token * token) * list token)) (t : token * token * token) : list ((token * token) * list token) :=
  let '(p, a, q) := t in
  match lookup (p, a) d with Some s => update (p, a) (add q s) d | None => d ++ [((p, a), [q])] end.

Lemma group_nfa_unfold trs : group_nfa trs = fold_left gstep trs [].
Proof. reflexivity. Qed.

Definition has_target (d : list ((token * token) * list token)) (k : token * token) (q : token) : Prop :=
  exists s, lookup k d = Some s /\ In q s.

Lemma gstep_target d p a q0 k q :
  has_target (gstep d (p, a, q0)) k q <-> has_target d k q \/ (k = (p, a) /\ q = q0).
Proof.
  unfold has_target, gstep. destruct (lookup (p, a) d) as [s0|] eqn:E.
  - split.
    + intros [s [Hl Hq]]. rewrite lookup_update in Hl. destruct (eqb k (p, a)) eqn:Ek.
      * apply eqb_true in Ek. subst k. inversion Hl; subst s. apply add_In in Hq.
        destruct Hq as [-> | Hq]; [right; auto | left; exists s0; auto].
      * left. exists s. auto.
    + intros [[s [Hl Hq]]|[-> ->]].
      * destruct (eqb k (p, a)) eqn:Ek.
        -- apply eqb_true in Ek. subst k. exists (add q0 s0). rewrite lookup_update, eqb_refl. split; [reflexivity|].
           apply add_In. right. congruence.
        -- exists s. rewrite lookup_update, Ek. auto.
      * exists (add q0 s0). rewrite lookup_update, eqb_refl. split; [reflexivity | apply add_In; auto].
  - split.
    + intros [s [Hl Hq]]. rewrite lookup_app in Hl. destruct (lookup k d) as [s1|] eqn:E1.
      * inversion Hl; subst s1. left. exists s. auto.
      * cbn [lookup] in Hl. destruct (eqb k (p, a)) eqn:Ek; [|discriminate].
        apply eqb_true in Ek. inversion Hl; subst s. destruct Hq as [<-|[]]. right; auto.
    + intros [[s [Hl Hq]]|[-> ->]].
      * exists s. rewrite lookup_app, Hl. auto.
      * exists [q0]. rewrite lookup_app, E. cbn [lookup]. rewrite eqb_refl. split; [reflexivity | left; reflexivity].
Qed.

Lemma fold_gstep_target trs : forall d k q,
  has_target (fold_left gstep trs d) k q <-> has_target d k q \/ In (fst k, snd k, q) trs.
Proof.
  induction trs as [|[[p a] q0] trs IH]; intros d k q; cbn [fold_left In].
  - tauto.
  - rewrite IH, gstep_target. destruct k as [k1 k2]. cbn [fst snd]. split.
    + intros [[H1|[E ->]]|H1]; [tauto | inversion E; subst; tauto | tauto].
    + intros [H1|[E|H1]]; [tauto | inversion E; subst; tauto | tauto].
Qed.

Lemma group_nfa_target trs p a q : has_target (group_nfa trs) (p, a) q <-> In (p, a, q) trs.
Proof.
  rewrite group_nfa_unfold, fold_gstep_target. cbn [fst snd]. split; [|tauto].
  intros [[s [Hl _]]|H1]; [discriminate | exact H1].
Qed.

Lemma update_In {K V} `{Eqb K} (k : K) (v : V) m k' v' : In (k', v') (update k v m) -> (k' = k /\ v' = v) \/ In (k', v') m.
Proof.
  induction m as [|[k1 v1] m IH]; cbn [update].
  - intros [E|[]]. inversion E; auto.
  - destruct (eqb k k1) eqn:Ek.
    + intros [E|Hin]; [inversion E; auto | right; right; exact Hin].
    + intros [E|Hin]; [right; left; exact E|]. destruct (IH Hin) as [Hl|Hr]; [auto | right; right; exact Hr].
Qed.

(* every entry of group_nfa has a non-empty target list *)
Lemma fold_gstep_nonempty trs : forall d,
  (forall k s, In (k, s) d -> s <> []) -> forall k s, In (k, s) (fold_left gstep trs d) -> s <> [].
Proof.
  induction trs as [|[[p a] q0] trs IH]; intros d Hd; cbn [fold_left]; [exact Hd|].
  apply IH. intros k s Hin. unfold gstep in Hin. destruct (lookup (p, a) d) as [s0|] eqn:E.
  - apply update_In in Hin. destruct Hin as [[_ ->]|Hin]; [|apply (Hd k s Hin)].
    intros Hc. assert (Hq : In q0 (add q0 s0)) by (apply add_In; auto). rewrite Hc in Hq. destruct Hq.
  - apply in_app_iff in Hin. destruct Hin as [Hin|[Ein|[]]]; [apply (Hd k s Hin)|].
    inversion Ein; subst. discriminate.
Qed.

Lemma fold_gstep_entry trs : forall d k s q, In (k, s) (fold_left gstep trs d) -> In q s ->
  (exists s0, In (k, s0) d /\ In q s0) \/ In (fst k, snd k, q) trs.
Proof.
  induction trs as [|[[p a] q0] trs IH]; intros d k s q Hin Hq; cbn [fold_left] in Hin.
  - left. exists s. auto.
  - destruct (IH _ _ _ _ Hin Hq) as [[s0 [Hin0 Hq0]]|Hr]; [|right; right; exact Hr].
    unfold gstep in Hin0. destruct (lookup (p, a) d) as [s1|] eqn:E.
    + apply update_In in Hin0. destruct Hin0 as [[-> ->]|Hin0].
      * apply add_In in Hq0. destruct Hq0 as [-> | Hq0]; [right; left; reflexivity|].
        left. exists s1. split; [apply lookup_In; exact E | exact Hq0].
      * left. exists s0. auto.
    + apply in_app_iff in Hin0. destruct Hin0 as [Hin0|[Ein|[]]]; [left; exists s0; auto|].
      inversion Ein; subst. destruct Hq0 as [<-|[]]. right; left; reflexivity.
Qed.

Lemma group_nfa_entry trs p a s :
  In ((p, a), s) (group_nfa trs) -> s <> [] /\ forall q, In q s -> In (p, a, q) trs.
Proof.
  intros Hin. split.
  - apply (fold_gstep_nonempty trs [] (fun k s0 (H0 : In (k, s0) []) => match H0 with end) (p, a) s). exact Hin.
  - intros q Hq. rewrite group_nfa_unfold in Hin.
    destruct (fold_gstep_entry trs [] (p, a) s q Hin Hq) as [[s0 [[] _]]|Hr]. exact Hr.
Qed.

Lemma line_ok_states sre lre kw ws :
  ws <> [] -> NoDup ws -> (forall q, In q ws -> sre q = true) -> line_ok sre lre kw (kw_states :: ws) = true.
Proof.
  intros Hne Hn Hs. unfold line_ok. cbn [starts_percent]. change (eqb kw_states kw_states) with true. cbv iota.
  rewrite (proj2 (has_dup_NoDup ws) Hn), (proj2 (forallb_forall _ _) Hs).
  destruct ws; [contradiction | reflexivity].
Qed.

Lemma line_ok_final sre lre kw ws :
  NoDup ws -> (forall q, In q ws -> sre q = true) -> line_ok sre lre kw (kw_final :: ws) = true.
Proof.
  intros Hn Hs. unfold line_ok. cbn [starts_percent]. change (eqb kw_final kw_states) with false.
  change (eqb kw_final kw_final) with true. cbv iota. cbn [orb].
  rewrite (proj2 (has_dup_NoDup ws) Hn), (proj2 (forallb_forall _ _) Hs). reflexivity.
Qed.

Lemma line_ok_initial sre lre kw q : sre q = true -> line_ok sre lre kw [kw_initial; q] = true.
Proof.
  intros Hs. unfold line_ok. cbn [starts_percent]. change (eqb kw_initial kw_states) with false.
  change (eqb kw_initial kw_final) with false. change (eqb kw_initial kw_initial) with true. cbv iota.
  cbn [orb has_dup mem existsb negb forallb andb]. rewrite Hs. reflexivity.
Qed.

Lemma build_nfa_intro sre A q0 decl eps :
  a_states A <> [] -> incl (used_states A) (a_states A) -> (forall s, In s (a_states A) -> sre s = true) ->
  a_init A = [q0] -> lookup kw_epsilon (a_items A) = Some [eps] -> lookup kw_input_symbols (a_items A) = Some decl ->
  (forall p a q, In (p, a, q) (a_trans A) -> a = eps \/ In a decl) -> (forall a, In a decl -> re_word a = true) ->
  ~ In eps decl ->
  build_nfa sre A = Some (mkTNFA (a_states A) (dedup decl) (group_nfa (a_trans A)) q0 (a_final A) eps).
Proof.
  intros Hne Hu Hs Hi Hle Hl Hsym Hre Heps.
  unfold build_nfa. rewrite (states_or_used_decl _ Hne), (check_common_intro sre _ A q0 Hu Hs Hi). cbn [negb].
  unfold parse_symbol, get_single. rewrite Hle.
  unfold get_symbol_set. rewrite Hl.
  match goal with |- context [subsetb ?u (dedup decl)] => assert (Hsub : subsetb u (dedup decl) = true) end.
  { apply subsetb_incl. intros a Ha. apply dedup_In. rewrite dedup_In in Ha. apply filter_In in Ha.
    destruct Ha as [Ha Hne']. apply negb_true_iff, eqb_neq in Hne'.
    apply in_map_iff in Ha. destruct Ha as [[[p a'] q] [E Hin]]. subst a'.
    destruct (Hsym p a q Hin) as [Hc|Hc]; [contradiction | exact Hc]. }
  rewrite Hsub.
  assert (Hw : forallb re_word (dedup decl) = true).
  { apply forallb_forall. intros a Ha. apply Hre. rewrite dedup_In in Ha. exact Ha. }
  rewrite Hw. cbn [negb]. rewrite Hi. cbn [hd].
  assert (Hwf : tnfa_wf_b (mkTNFA (a_states A) (dedup decl) (group_nfa (a_trans A)) q0 (a_final A) eps) = true).
  { unfold tnfa_wf_b. cbn [tnQ tnS tnD tnq0 tnF tneps]. rewrite !andb_true_iff. repeat split.
    - apply mem_In. apply Hu. apply used_states_In. left. rewrite Hi. left; reflexivity.
    - apply subsetb_incl. intros s Hsf. apply Hu. apply used_states_In. right; left. exact Hsf.
    - apply negb_true_iff, mem_nIn. rewrite dedup_In. exact Heps.
    - apply forallb_forall. intros [[p a] s] Hin. apply group_nfa_entry in Hin. destruct Hin as [Hne' Hall].
      destruct s as [|q s]; [contradiction|].
      assert (Hq : In (p, a, q) (a_trans A)) by (apply Hall; left; reflexivity).
      rewrite !andb_true_iff, orb_true_iff, !mem_In. repeat split.
      + apply Hu. apply used_states_In. right; right. exists p, a, q. auto.
      + destruct (Hsym p a q Hq) as [-> | Hc]; [right; apply eqb_refl | left; apply dedup_In; exact Hc].
      + apply subsetb_incl. intros q' Hq'. apply Hu. apply used_states_In. right; right. exists p, a, q'.
        split; [apply Hall; exact Hq' | auto]. }
  rewrite Hwf. reflexivity.
Qed.

Definition tn_step (N : tnfa) (p a q : token) : Prop := has_target (tnD N) (p, a) q.
Definition tnfa_equiv (N N' : tnfa) : Prop :=
  seteq (tnQ N) (tnQ N') /\ seteq (tnS N) (tnS N') /\ (forall p a q, tn_step N p a q <-> tn_step N' p a q) /\
  tnq0 N = tnq0 N' /\ seteq (tnF N) (tnF N') /\ tneps N = tneps N'.

Section RoundTripNFA.
  Variable ord : list token -> list token.
  Variable ordP : list (token * token) -> list (token * token).
  Hypothesis ord_perm : forall l, Permutation (ord l) l.
  Hypothesis ordP_perm : forall l, Permutation (ordP l) l.

  Definition nfa_trs (N : tnfa) : list (token * token * token) :=
    flat_map (fun e => let '((p, a), s) := e in map (fun q => (p, a, q)) s) (tnD N).

  Lemma nfa_trs_In N p a q : In (p, a, q) (nfa_trs N) <-> exists s, In ((p, a), s) (tnD N) /\ In q s.
  Proof.
    unfold nfa_trs. rewrite in_flat_map. split.
    - intros [[[p' a'] s] [Hin Hq]]. apply in_map_iff in Hq. destruct Hq as [q' [E Hq]]. inversion E; subst.
      exists s. auto.
    - intros [s [Hin Hq]]. exists ((p, a), s). split; [exact Hin|]. apply in_map_iff. exists q. auto.
  Qed.

  Lemma nfa_trs_step N p a q : NoDup (map fst (tnD N)) -> In (p, a, q) (nfa_trs N) <-> tn_step N p a q.
  Proof.
    intros Hn. rewrite nfa_trs_In. unfold tn_step, has_target. split.
    - intros [s [Hin Hq]]. exists s. split; [apply lookup_NoDup_In; assumption | exact Hq].
    - intros [s [Hl Hq]]. exists s. split; [apply lookup_In; exact Hl | exact Hq].
  Qed.

  Theorem print_parse_nfa : forall N,
    tnfa_wf_b N = true -> NoDup (tnQ N) -> NoDup (tnF N) -> NoDup (map fst (tnD N)) ->
    (forall q, In q (tnQ N) -> re_word q = true) ->
    (forall p a s, In ((p, a), s) (tnD N) -> s <> [] -> is_reserved kw_nfa p = false) ->
    (forall a, In a (tnS N) -> re_word a = true) -> tneps N <> [] ->
    exists N', parse_nfa (print_nfa ord ordP N) = Some N' /\ tnfa_equiv N N'.
  Proof.
    intros N Hwf HnQ HnF HnD HQ Hsrc HS Heps.
    unfold tnfa_wf_b in Hwf. rewrite !andb_true_iff in Hwf. destruct Hwf as [[[Hq0 HF] HepsS] HD].
    apply mem_In in Hq0. apply subsetb_incl in HF. apply negb_true_iff, mem_nIn in HepsS. rewrite forallb_forall in HD.
    assert (HDs : forall p a q, In (p, a, q) (nfa_trs N) -> In p (tnQ N) /\ (a = tneps N \/ In a (tnS N)) /\ In q (tnQ N)).
    { intros p a q Hin. apply nfa_trs_In in Hin. destruct Hin as [s [Hin Hq]]. specialize (HD _ Hin). cbn in HD.
      rewrite !andb_true_iff, orb_true_iff, !mem_In in HD. destruct HD as [[Hp Ha] Hs]. apply subsetb_incl in Hs.
      repeat split; [exact Hp | | apply Hs; exact Hq].
      destruct Ha as [Ha|Ha]; [right; exact Ha | left; apply eqb_true; exact Ha]. }
    set (header := [kw_states :: ord (tnQ N); kw_final :: ord (tnF N); [kw_initial; tnq0 N]; kw_input_symbols :: ord (tnS N); [kw_epsilon; tneps N]]).
    set (items := [(kw_states, ord (tnQ N)); (kw_final, ord (tnF N)); (kw_initial, [tnq0 N]); (kw_input_symbols, ord (tnS N)); (kw_epsilon, [tneps N])]).
    assert (Hdecl : decls kw_nfa header = items) by reflexivity.
    assert (HordQ_In : forall q, In q (ord (tnQ N)) <-> In q (tnQ N)) by (intros q; apply (seteq_perm _ _ (ord_perm _))).
    assert (HordF_In : forall q, In q (ord (tnF N)) <-> In q (tnF N)) by (intros q; apply (seteq_perm _ _ (ord_perm _))).
    assert (HordS_In : forall q, In q (ord (tnS N)) <-> In q (tnS N)) by (intros q; apply (seteq_perm _ _ (ord_perm _))).
    assert (HordQ : ord (tnQ N) <> []).
    { intros E. pose proof (proj2 (HordQ_In _) Hq0) as Hc. rewrite E in Hc. destruct Hc. }
    assert (Hparse : parse_automaton re_word re_any kw_nfa (print_nfa ord ordP N) =
                     Some (mkAut (ord (tnQ N)) (regroup ordP (nfa_trs N)) [tnq0 N] (ord (tnF N)) items)).
    { change (print_nfa ord ordP N) with (header ++ group_lines ordP (nfa_trs N)).
      refine (eq_trans (parse_printed ordP ordP_perm re_word re_any kw_nfa header (nfa_trs N) _ _ _) _).
      4:{ rewrite Hdecl. reflexivity. }
      - intros l Hl. split.
        + cbn in Hl. destruct Hl as [<-|[<-|[<-|[<-|[<-|[]]]]]]; reflexivity.
        + cbn [header In] in Hl. destruct Hl as [<-|[<-|[<-|[<-|[<-|[]]]]]].
          * apply line_ok_states; [exact HordQ | apply (Permutation_NoDup (Permutation_sym (ord_perm _)) HnQ) |].
            intros q Hq. apply HQ, HordQ_In, Hq.
          * apply line_ok_final; [apply (Permutation_NoDup (Permutation_sym (ord_perm _)) HnF)|].
            intros q Hq. apply HQ, HF, HordF_In, Hq.
          * apply line_ok_initial. apply (HQ _ Hq0).
          * reflexivity.
          * reflexivity.
      - rewrite Hdecl. cbn [map fst items]. apply has_dup_NoDup. reflexivity.
      - intros p a q Hin. destruct (HDs p a q Hin) as [Hp [Ha Hq]].
        pose proof (HQ p Hp) as Hpw. pose proof (HQ q Hq) as Hqw.
        assert (Hpr : is_reserved kw_nfa p = false).
        { apply (proj1 (nfa_trs_In _ _ _ _)) in Hin. destruct Hin as [s [Hin Hqs]].
          apply (Hsrc p a s Hin). intros Hc. rewrite Hc in Hqs. destruct Hqs. }
        repeat split; [apply good_state_trans; assumption | exact Hpw | exact Hqw |].
        destruct Ha as [-> | Ha]; [|apply re_word_re_any, HS, Ha].
        destruct (tneps N); [contradiction | reflexivity]. }
    pose proof (regroup_perm ordP ordP_perm (nfa_trs N)) as Hperm.
    set (A := mkAut (ord (tnQ N)) (regroup ordP (nfa_trs N)) [tnq0 N] (ord (tnF N)) items) in *.
    assert (HinT : forall t, In t (a_trans A) <-> In t (nfa_trs N)).
    { intros t. cbn [A a_trans]. apply (seteq_perm _ _ Hperm). }
    assert (Hbuild : build_nfa re_word A = Some (mkTNFA (a_states A) (dedup (ord (tnS N))) (group_nfa (a_trans A)) (tnq0 N) (a_final A) (tneps N))).
    { apply build_nfa_intro.
      - exact HordQ.
      - intros s Hs. apply (proj1 (used_states_In _ _)) in Hs. cbn [A a_states a_init a_final] in *. apply HordQ_In.
        destruct Hs as [[<-|[]]|[Hs|[p [a [q [Ht Hs]]]]]].
        + exact Hq0.
        + apply HF, HordF_In, Hs.
        + apply (proj1 (HinT _)) in Ht. destruct (HDs p a q Ht) as [Hp [_ Hq]]. destruct Hs as [-> | ->]; assumption.
      - intros s Hs. apply HordQ_In in Hs. apply (HQ s Hs).
      - reflexivity.
      - reflexivity.
      - reflexivity.
      - intros p a q Hin. apply (proj1 (HinT _)) in Hin. destruct (HDs p a q Hin) as [_ [Ha _]].
        destruct Ha as [Ha|Ha]; [left; exact Ha | right; apply HordS_In; exact Ha].
      - intros a Ha. apply HS, HordS_In, Ha.
      - intros Hc. apply HepsS. apply HordS_In. exact Hc. }
    eexists. split.
    - rewrite parse_nfa_unfold, Hparse. exact Hbuild.
    - unfold tnfa_equiv. cbn [tnQ tnS tnD tnq0 tnF tneps A a_states a_final a_trans].
      repeat split.
      + apply HordQ_In.
      + apply HordQ_In.
      + intros Hx. apply dedup_In, HordS_In, Hx.
      + intros Hx. apply HordS_In. rewrite dedup_In in Hx. exact Hx.
      + intros Hst. unfold tn_step. cbn [tnD]. apply group_nfa_target. apply (seteq_perm _ _ Hperm).
        apply nfa_trs_step; assumption.
      + intros Hst. unfold tn_step in Hst. cbn [tnD] in Hst. apply group_nfa_target in Hst.
        apply (seteq_perm _ _ Hperm) in Hst. apply nfa_trs_step; assumption.
      + apply HordF_In.
      + apply HordF_In.
  Qed.
End RoundTripNFA.

(* ---- PDA ---- *)
Definition pda_tuple_of (t : token * token * token) : token * token * token * token * token :=
  let '(p, l, q) := t in (p, lbl l 0, lbl l 2, q, lbl l 3).

Lemma build_pda_intro sre A q0 declS declG eps :
  a_states A <> [] -> incl (used_states A) (a_states A) -> (forall s, In s (a_states A) -> sre s = true) ->
  a_init A = [q0] -> lookup kw_epsilon (a_items A) = Some [eps] ->
  lookup kw_input_symbols (a_items A) = Some declS -> lookup kw_stack_symbols (a_items A) = Some declG ->
  (forall p l q, In (p, l, q) (a_trans A) ->
     (lbl l 0 = eps \/ In (lbl l 0) declS) /\ (lbl l 2 = eps \/ In (lbl l 2) declG) /\ (lbl l 3 = eps \/ In (lbl l 3) declG)) ->
  (forall a, In a declS -> re_word a = true) -> ~ In eps declS -> ~ In eps declG ->
  build_pda sre A = Some (mkTPDA (a_states A) (dedup declS) (dedup declG) (dedup (map pda_tuple_of (a_trans A))) q0 (a_final A) eps).
Proof.
  intros Hne Hu Hs Hi Hle HlS HlG Hsym Hre HepsS HepsG.
  unfold build_pda. rewrite (states_or_used_decl _ Hne), (check_common_intro sre _ A q0 Hu Hs Hi). cbn [negb].
  unfold parse_symbol, get_single. rewrite Hle.
  unfold get_symbol_set. rewrite HlS, HlG.
  match goal with |- context [subsetb ?u (dedup declS)] => assert (Hsub : subsetb u (dedup declS) = true) end.
  { apply subsetb_incl. intros a Ha. apply dedup_In. rewrite dedup_In in Ha. apply filter_In in Ha.
    destruct Ha as [Ha Hne']. apply negb_true_iff, eqb_neq in Hne'.
    apply in_map_iff in Ha. destruct Ha as [l [<- Hl]].
    apply in_map_iff in Hl. destruct Hl as [[[p l'] q] [E Hin]]. subst l'.
    destruct (Hsym p l q Hin) as [[Hc|Hc] _]; [contradiction | exact Hc]. }
  rewrite Hsub.
  match goal with |- context [subsetb ?u (dedup declG)] => assert (Hsub2 : subsetb u (dedup declG) = true) end.
  { apply subsetb_incl. intros a Ha. apply dedup_In. rewrite dedup_In in Ha. apply filter_In in Ha.
    destruct Ha as [Ha Hne']. apply negb_true_iff, eqb_neq in Hne'.
    apply in_flat_map in Ha. destruct Ha as [l [Hl Ha]].
    apply in_map_iff in Hl. destruct Hl as [[[p l'] q] [E Hin]]. subst l'.
    destruct (Hsym p l q Hin) as [_ [H2 H3]].
    destruct Ha as [<-|[<-|[]]]; [destruct H2 as [Hc|Hc] | destruct H3 as [Hc|Hc]]; try contradiction; exact Hc. }
  rewrite Hsub2.
  assert (Hw : forallb re_word (dedup declS) = true).
  { apply forallb_forall. intros a Ha. apply Hre. rewrite dedup_In in Ha. exact Ha. }
  rewrite Hw. cbn [negb]. rewrite Hi. cbn [hd].
  change (map (fun t : token * token * token => let '(p, l, q) := t in (p, lbl l 0, lbl l 2, q, lbl l 3)) (a_trans A))
    with (map pda_tuple_of (a_trans A)).
  assert (Hwf : tpda_wf_b (mkTPDA (a_states A) (dedup declS) (dedup declG) (dedup (map pda_tuple_of (a_trans A))) q0 (a_final A) eps) = true).
  { unfold tpda_wf_b. cbn [tpQ tpS tpG tpD tpq0 tpF tpeps]. rewrite !andb_true_iff. repeat split.
    - apply mem_In. apply Hu. apply used_states_In. left. rewrite Hi. left; reflexivity.
    - apply negb_true_iff, mem_nIn. rewrite dedup_In. exact HepsS.
    - apply negb_true_iff, mem_nIn. rewrite dedup_In. exact HepsG.
    - apply subsetb_incl. intros s Hsf. apply Hu. apply used_states_In. right; left. exact Hsf.
    - apply forallb_forall. intros [[[[p a] u] q] v] Hin. rewrite dedup_In in Hin.
      apply in_map_iff in Hin. destruct Hin as [[[p' l] q'] [E Hin]]. cbn in E. inversion E; subst p' q' a u v.
      destruct (Hsym p l q Hin) as [H0 [H2 H3]].
      rewrite !andb_true_iff, !orb_true_iff, !mem_In, !dedup_In. repeat split.
      + apply Hu. apply used_states_In. right; right. exists p, l, q. auto.
      + destruct H0 as [-> | Hc]; [right; apply eqb_refl | left; exact Hc].
      + destruct H2 as [-> | Hc]; [right; apply eqb_refl | left; exact Hc].
      + apply Hu. apply used_states_In. right; right. exists p, l, q. auto.
      + destruct H3 as [-> | Hc]; [right; apply eqb_refl | left; exact Hc]. }
  rewrite Hwf. reflexivity.
Qed.

Definition tpda_equiv (P P' : tpda) : Prop :=
  seteq (tpQ P) (tpQ P') /\ seteq (tpS P) (tpS P') /\ seteq (tpG P) (tpG P') /\ seteq (tpD P) (tpD P') /\
  tpq0 P = tpq0 P' /\ seteq (tpF P) (tpF P') /\ tpeps P = tpeps P'.

Definition single_w (a : token) : Prop := exists c, a = [c] /\ is_w c = true.
Definition single_sym (a : token) : Prop := exists c, a = [c] /\ is_sym_char c = true.

Lemma single_w_sym a : single_w a -> single_sym a.
Proof. intros [c [-> Hc]]. exists c. split; [reflexivity|]. unfold is_sym_char. rewrite Hc. reflexivity. Qed.

Lemma single_w_re_word a : single_w a -> re_word a = true.
Proof. intros [c [-> Hc]]. cbn. rewrite Hc. reflexivity. Qed.

Section RoundTripPDA.
  Variable ord : list token -> list token.
  Variable ordP : list (token * token) -> list (token * token).
  Hypothesis ord_perm : forall l, Permutation (ord l) l.
  Hypothesis ordP_perm : forall l, Permutation (ordP l) l.

  Definition pda_line_of (t : token * token * token * token * token) : token * token * token :=
    let '(p, a, u, q, v) := t in (p, pda_label a u v, q).
  Definition pda_trs (P : tpda) : list (token * token * token) := map pda_line_of (tpD P).

  Lemma pda_tuple_line a u v p q :
    single_w a -> single_sym u -> single_sym v ->
    pda_tuple_of (pda_line_of (p, a, u, q, v)) = (p, a, u, q, v) /\ re_pda_label (pda_label a u v) = true.
  Proof.
    intros [ca [-> Ha]] [cu [-> Hu]] [cv [-> Hv]]. split; [reflexivity|].
    cbn. rewrite Ha, Hu, Hv. reflexivity.
  Qed.

  Lemma pda_label_lbl a u v :
    single_w a -> single_sym u -> single_sym v ->
    lbl (pda_label a u v) 0 = a /\ lbl (pda_label a u v) 2 = u /\ lbl (pda_label a u v) 3 = v.
  Proof. intros [ca [-> Ha]] [cu [-> Hu]] [cv [-> Hv]]. repeat split; reflexivity. Qed.

  Theorem print_parse_pda : forall P,
    tpda_wf_b P = true -> NoDup (tpQ P) -> NoDup (tpF P) ->
    (forall q, In q (tpQ P) -> re_word q = true) ->
    (forall p a u q v, In (p, a, u, q, v) (tpD P) -> is_reserved kw_pda p = false) ->
    (forall a, In a (tpS P) -> single_w a) -> (forall u, In u (tpG P) -> single_sym u) -> single_w (tpeps P) ->
    exists P', parse_pda (print_pda ord ordP P) = Some P' /\ tpda_equiv P P'.
  Proof.
    intros P Hwf HnQ HnF HQ Hsrc HS HG Heps.
    unfold tpda_wf_b in Hwf. rewrite !andb_true_iff in Hwf. destruct Hwf as [[[[Hq0 HepsS] HepsG] HF] HD].
    apply mem_In in Hq0. apply subsetb_incl in HF. apply negb_true_iff, mem_nIn in HepsS. apply negb_true_iff, mem_nIn in HepsG.
    rewrite forallb_forall in HD.
    assert (HDs : forall p a u q v, In (p, a, u, q, v) (tpD P) ->
              In p (tpQ P) /\ (a = tpeps P \/ In a (tpS P)) /\ (u = tpeps P \/ In u (tpG P)) /\ In q (tpQ P) /\ (v = tpeps P \/ In v (tpG P))).
    { intros p a u q v Hin. specialize (HD _ Hin). cbn in HD.
      rewrite !andb_true_iff, !orb_true_iff, !mem_In in HD. destruct HD as [[[[Hp Ha] Hu] Hq] Hv].
      repeat split; try assumption.
      - destruct Ha as [Ha|Ha]; [right; exact Ha | left; apply eqb_true; exact Ha].
      - destruct Hu as [Hu|Hu]; [right; exact Hu | left; apply eqb_true; exact Hu].
      - destruct Hv as [Hv|Hv]; [right; exact Hv | left; apply eqb_true; exact Hv]. }
    assert (Hsingle : forall p a u q v, In (p, a, u, q, v) (tpD P) -> single_w a /\ single_sym u /\ single_sym v).
    { intros p a u q v Hin. destruct (HDs _ _ _ _ _ Hin) as [_ [Ha [Hu [_ Hv]]]]. repeat split.
      - destruct Ha as [-> | Ha]; [exact Heps | apply HS, Ha].
      - destruct Hu as [-> | Hu]; [apply single_w_sym, Heps | apply HG, Hu].
      - destruct Hv as [-> | Hv]; [apply single_w_sym, Heps | apply HG, Hv]. }
    set (header := [kw_states :: ord (tpQ P); kw_final :: ord (tpF P); [kw_initial; tpq0 P]; kw_input_symbols :: ord (tpS P);
                    kw_stack_symbols :: ord (tpG P); [kw_epsilon; tpeps P]]).
    set (items := [(kw_states, ord (tpQ P)); (kw_final, ord (tpF P)); (kw_initial, [tpq0 P]); (kw_input_symbols, ord (tpS P));
                   (kw_stack_symbols, ord (tpG P)); (kw_epsilon, [tpeps P])]).
    assert (Hdecl : decls kw_pda header = items) by reflexivity.
    assert (HordQ_In : forall q, In q (ord (tpQ P)) <-> In q (tpQ P)) by (intros q; apply (seteq_perm _ _ (ord_perm _))).
    assert (HordF_In : forall q, In q (ord (tpF P)) <-> In q (tpF P)) by (intros q; apply (seteq_perm _ _ (ord_perm _))).
    assert (HordS_In : forall q, In q (ord (tpS P)) <-> In q (tpS P)) by (intros q; apply (seteq_perm _ _ (ord_perm _))).
    assert (HordG_In : forall q, In q (ord (tpG P)) <-> In q (tpG P)) by (intros q; apply (seteq_perm _ _ (ord_perm _))).
    assert (HordQ : ord (tpQ P) <> []).
    { intros E. pose proof (proj2 (HordQ_In _) Hq0) as Hc. rewrite E in Hc. destruct Hc. }
    assert (Htrs : forall p l q, In (p, l, q) (pda_trs P) ->
              exists a u v, l = pda_label a u v /\ In (p, a, u, q, v) (tpD P)).
    { intros p l q Hin. unfold pda_trs in Hin. apply in_map_iff in Hin.
      destruct Hin as [[[[[p' a] u] q'] v] [E Hin]]. cbn in E. inversion E; subst. exists a, u, v. auto. }
    assert (Hparse : parse_automaton re_word re_pda_label kw_pda (print_pda ord ordP P) =
                     Some (mkAut (ord (tpQ P)) (regroup ordP (pda_trs P)) [tpq0 P] (ord (tpF P)) items)).
    { change (print_pda ord ordP P) with (header ++ group_lines ordP (pda_trs P)).
      refine (eq_trans (parse_printed ordP ordP_perm re_word re_pda_label kw_pda header (pda_trs P) _ _ _) _).
      4:{ rewrite Hdecl. reflexivity. }
      - intros l Hl. split.
        + cbn in Hl. destruct Hl as [<-|[<-|[<-|[<-|[<-|[<-|[]]]]]]]; reflexivity.
        + cbn [header In] in Hl. destruct Hl as [<-|[<-|[<-|[<-|[<-|[<-|[]]]]]]].
          * apply line_ok_states; [exact HordQ | apply (Permutation_NoDup (Permutation_sym (ord_perm _)) HnQ) |].
            intros q Hq. apply HQ, HordQ_In, Hq.
          * apply line_ok_final; [apply (Permutation_NoDup (Permutation_sym (ord_perm _)) HnF)|].
            intros q Hq. apply HQ, HF, HordF_In, Hq.
          * apply line_ok_initial. apply (HQ _ Hq0).
          * reflexivity.
          * reflexivity.
          * reflexivity.
      - rewrite Hdecl. cbn [map fst items]. apply has_dup_NoDup. reflexivity.
      - intros p l q Hin. destruct (Htrs p l q Hin) as [a [u [v [-> Hin']]]].
        destruct (HDs _ _ _ _ _ Hin') as [Hp [_ [_ [Hq _]]]].
        destruct (Hsingle _ _ _ _ _ Hin') as [Ha [Hu Hv]].
        pose proof (HQ p Hp) as Hpw. pose proof (Hsrc _ _ _ _ _ Hin') as Hpr. pose proof (HQ q Hq) as Hqw.
        repeat split; [apply good_state_trans; assumption | exact Hpw | exact Hqw |].
        apply (pda_tuple_line a u v p q Ha Hu Hv). }
    pose proof (regroup_perm ordP ordP_perm (pda_trs P)) as Hperm.
    set (A := mkAut (ord (tpQ P)) (regroup ordP (pda_trs P)) [tpq0 P] (ord (tpF P)) items) in *.
    assert (HinT : forall t, In t (a_trans A) <-> In t (pda_trs P)).
    { intros t. cbn [A a_trans]. apply (seteq_perm _ _ Hperm). }
    assert (Hbuild : build_pda re_word A = Some (mkTPDA (a_states A) (dedup (ord (tpS P))) (dedup (ord (tpG P)))
                        (dedup (map pda_tuple_of (a_trans A))) (tpq0 P) (a_final A) (tpeps P))).
    { apply build_pda_intro.
      - exact HordQ.
      - intros s Hs. apply (proj1 (used_states_In _ _)) in Hs. cbn [A a_states a_init a_final] in *. apply HordQ_In.
        destruct Hs as [[<-|[]]|[Hs|[p [l [q [Ht Hs]]]]]].
        + exact Hq0.
        + apply HF, HordF_In, Hs.
        + apply (proj1 (HinT _)) in Ht. destruct (Htrs p l q Ht) as [a [u [v [_ Hin']]]].
          destruct (HDs _ _ _ _ _ Hin') as [Hp [_ [_ [Hq _]]]]. destruct Hs as [-> | ->]; assumption.
      - intros s Hs. apply HordQ_In in Hs. apply (HQ s Hs).
      - reflexivity.
      - reflexivity.
      - reflexivity.
      - reflexivity.
      - intros p l q Hin. apply (proj1 (HinT _)) in Hin. destruct (Htrs p l q Hin) as [a [u [v [-> Hin']]]].
        destruct (Hsingle _ _ _ _ _ Hin') as [Ha [Hu Hv]].
        destruct (HDs _ _ _ _ _ Hin') as [_ [Ha' [Hu' [_ Hv']]]].
        destruct (pda_label_lbl a u v Ha Hu Hv) as [E0 [E2 E3]].
        rewrite E0, E2, E3. rewrite HordS_In, !HordG_In. tauto.
      - intros a Ha. apply single_w_re_word, HS, HordS_In, Ha.
      - intros Hc. apply HepsS. apply HordS_In. exact Hc.
      - intros Hc. apply HepsG. apply HordG_In. exact Hc. }
    eexists. split.
    - rewrite parse_pda_unfold, Hparse. exact Hbuild.
    - unfold tpda_equiv. cbn [tpQ tpS tpG tpD tpq0 tpF tpeps A a_states a_final a_trans].
      assert (HDeq : forall t, In t (tpD P) <-> In t (dedup (map pda_tuple_of (regroup ordP (pda_trs P))))).
      { intros t. rewrite dedup_In, in_map_iff. split.
        - intros Hin. destruct t as [[[[p a] u] q] v]. exists (pda_line_of (p, a, u, q, v)). split.
          + destruct (Hsingle _ _ _ _ _ Hin) as [Ha [Hu Hv]]. apply (pda_tuple_line a u v p q Ha Hu Hv).
          + apply (seteq_perm _ _ Hperm). unfold pda_trs. apply in_map. exact Hin.
        - intros [[[p l] q] [E Hin]]. apply (seteq_perm _ _ Hperm) in Hin.
          destruct (Htrs p l q Hin) as [a [u [v [-> Hin']]]].
          destruct (Hsingle _ _ _ _ _ Hin') as [Ha [Hu Hv]].
          destruct (pda_tuple_line a u v p q Ha Hu Hv) as [E' _]. unfold pda_line_of in E'. rewrite E' in E. subst t. exact Hin'. }
      repeat split; try (apply HordQ_In); try (apply HordF_In); try (apply HDeq).
      + intros Hx. apply dedup_In, HordS_In, Hx.
      + intros Hx. apply HordS_In. rewrite dedup_In in Hx. exact Hx.
      + intros Hx. apply dedup_In, HordG_In, Hx.
      + intros Hx. apply HordG_In. rewrite dedup_In in Hx. exact Hx.
  Qed.
End RoundTripPDA.

(* ---- TM ---- *)
Section FoldUpdate.
  Context {X K V : Type} `{Eqb K}.
  Variables (key : X -> K) (val : X -> V).
  Definition fold_update (l : list X) (d : list (K * V)) : list (K * V) :=
    fold_left (fun d x => update (key x) (val x) d) l d.

  Lemma fold_update_In l : forall d k v, In (k, v) (fold_update l d) -> In (k, v) d \/ exists x, In x l /\ key x = k /\ val x = v.
  Proof.
    induction l as [|x l IH]; intros d k v Hin; cbn [fold_update fold_left] in Hin; [left; exact Hin|].
    destruct (IH _ _ _ Hin) as [Hd|[y [Hy [Hk Hv]]]].
    - apply update_In in Hd. destruct Hd as [[-> ->]|Hd]; [right; exists x; cbn; auto | left; exact Hd].
    - right. exists y. cbn; auto.
  Qed.

  Lemma fold_update_lookup l : NoDup (map key l) -> forall d k v,
    lookup k (fold_update l d) = Some v <->
    (exists x, In x l /\ key x = k /\ val x = v) \/ ((forall x, In x l -> key x <> k) /\ lookup k d = Some v).
  Proof.
    induction l as [|x l IH]; intros Hn d k v.
    - cbn [fold_update fold_left]. split.
      + intros Hl. right. split; [intros x [] | exact Hl].
      + intros [[x [[] _]]|[_ Hl]]; exact Hl.
    - cbn [map] in Hn. inversion Hn as [|y l' Hx Hl']; subst.
      cbn [fold_update fold_left]. fold (fold_update l (update (key x) (val x) d)).
      rewrite (IH Hl'), lookup_update.
      assert (Hfresh : forall y, In y l -> key y <> key x).
      { intros y Hy Hc. apply Hx. rewrite <- Hc. apply in_map. exact Hy. }
      destruct (eqb k (key x)) eqn:Ek.
      + apply eqb_true in Ek. subst k. split.
        * intros [[y [Hy [Hk _]]]|[_ Hv]]; [exfalso; apply (Hfresh y Hy Hk)|].
          inversion Hv; subst. left. exists x. cbn; auto.
        * intros [[y [[<-|Hy] [Hk Hv]]]|[Hno _]].
          -- right. split; [exact Hfresh | rewrite Hv; reflexivity].
          -- exfalso; apply (Hfresh y Hy Hk).
          -- exfalso. apply (Hno x (or_introl eq_refl)). reflexivity.
      + apply eqb_neq in Ek. split.
        * intros [[y [Hy [Hk Hv]]]|[Hno Hv]].
          -- left. exists y. cbn; auto.
          -- right. split; [|exact Hv]. intros y [<-|Hy]; [congruence | apply Hno, Hy].
        * intros [[y [[<-|Hy] [Hk Hv]]]|[Hno Hv]].
          -- congruence.
          -- left. exists y. auto.
          -- right. split; [|exact Hv]. intros y Hy. apply Hno. right; exact Hy.
  Qed.
End FoldUpdate.

Definition tm_key (t : token * token * token) : token * token := let '(p, l, _) := t in (p, lbl l 0).
Definition tm_val (t : token * token * token) : token * token * bool :=
  let '(_, l, q) := t in (q, lbl l 1, match nth_error l 3 with Some c => Nat.eqb c c_L | None => false end).
Definition tm_delta_of (trs : list (token * token * token)) : list ((token * token) * (token * token * bool)) :=
  fold_update tm_key tm_val trs [].

Lemma fold_left_ext {X Y} (f g : Y -> X -> Y) l : (forall d x, f d x = g d x) -> forall d, fold_left f l d = fold_left g l d.
Proof. intros He. induction l as [|x l IH]; intros d; [reflexivity|]. cbn [fold_left]. rewrite He. apply IH. Qed.

Lemma tm_states_decl A qa qr : a_states A <> [] -> tm_states A qa qr = a_states A.
Proof. unfold tm_states. destruct (a_states A); [contradiction | reflexivity]. Qed.

Lemma build_tm_intro sre A q0 qa qr blank declS declG :
  a_states A <> [] -> incl (used_states A) (a_states A) -> (forall s, In s (a_states A) -> sre s = true) ->
  a_init A = [q0] -> lookup kw_accept (a_items A) = Some [qa] -> lookup kw_reject (a_items A) = Some [qr] ->
  lookup kw_blank (a_items A) = Some [blank] -> lookup kw_tape_symbols (a_items A) = Some declG ->
  lookup kw_input_symbols (a_items A) = Some declS ->
  (forall p l q, In (p, l, q) (a_trans A) -> In (lbl l 0) declG /\ In (lbl l 1) declG) ->
  In qa (a_states A) -> In qr (a_states A) -> qr <> qa -> ~ In blank declS -> incl declS declG ->
  build_tm sre A = Some (mkTTM (a_states A) (dedup declS) (add blank (dedup declG)) (tm_delta_of (a_trans A)) q0 qa qr blank).
Proof.
  intros Hne Hu Hs Hi Hla Hlr Hlb HlG HlS Hsym Hqa Hqr Hneq HbS HSG.
  unfold build_tm, get_single. rewrite Hla, Hlr.
  fold (tm_states A qa qr). rewrite (tm_states_decl A qa qr Hne), (check_common_intro sre _ A q0 Hu Hs Hi). cbn [negb].
  unfold parse_symbol, get_single. rewrite Hlb.
  unfold get_symbol_set. rewrite HlG, HlS.
  match goal with |- context [subsetb ?u (dedup declG)] => assert (Hsub : subsetb u (dedup declG) = true) end.
  { apply subsetb_incl. intros a Ha. apply dedup_In. rewrite dedup_In in Ha.
    apply in_flat_map in Ha. destruct Ha as [l [Hl Ha]].
    apply in_map_iff in Hl. destruct Hl as [[[p l'] q] [E Hin]]. subst l'.
    destruct (Hsym p l q Hin) as [H0 H1]. destruct Ha as [<-|[<-|[]]]; assumption. }
  rewrite Hsub. rewrite Hi. cbn [hd].
  match goal with |- context [mkTTM _ _ _ ?d _ _ _ _] => assert (Hd : d = tm_delta_of (a_trans A)) end.
  { unfold tm_delta_of, fold_update. apply fold_left_ext. intros d [[p l] q]. reflexivity. }
  rewrite Hd.
  assert (Hwf : ttm_wf_b (mkTTM (a_states A) (dedup declS) (add blank (dedup declG)) (tm_delta_of (a_trans A)) q0 qa qr blank) = true).
  { unfold ttm_wf_b. cbn [ttQ ttS ttG ttD ttq0 ttqa ttqr ttblank]. rewrite !andb_true_iff. repeat split.
    - apply mem_In. apply Hu. apply used_states_In. left. rewrite Hi. left; reflexivity.
    - apply mem_In; exact Hqa.
    - apply mem_In; exact Hqr.
    - apply negb_true_iff, eqb_neq. exact Hneq.
    - apply negb_true_iff, mem_nIn. rewrite dedup_In. exact HbS.
    - apply mem_In, add_In. left; reflexivity.
    - apply subsetb_incl. intros a Ha. rewrite dedup_In in Ha. apply add_In. right. apply dedup_In, HSG, Ha.
    - apply forallb_forall. intros [[p a] [[q b] d]] Hin. unfold tm_delta_of in Hin.
      apply fold_update_In in Hin. destruct Hin as [[]|[[[p' l] q'] [Hin [Ek Ev]]]].
      cbn in Ek, Ev. inversion Ek; subst p' a. inversion Ev; subst q' b d.
      destruct (Hsym p l q Hin) as [H0 H1].
      rewrite !andb_true_iff, !mem_In. repeat split.
      + apply Hu. apply used_states_In. right; right. exists p, l, q. auto.
      + apply add_In. right. apply dedup_In, H0.
      + apply Hu. apply used_states_In. right; right. exists p, l, q. auto.
      + apply add_In. right. apply dedup_In, H1. }
  rewrite Hwf. reflexivity.
Qed.

Definition ttm_equiv (T T' : ttm) : Prop :=
  seteq (ttQ T) (ttQ T') /\ seteq (ttS T) (ttS T') /\ seteq (ttG T) (ttG T') /\
  (forall k, lookup k (ttD T) = lookup k (ttD T')) /\
  ttq0 T = ttq0 T' /\ ttqa T = ttqa T' /\ ttqr T = ttqr T' /\ ttblank T = ttblank T'.

Definition single_tm (a : token) : Prop := exists c, a = [c] /\ is_tm_char c = true.

Section RoundTripTM.
  Variable ord : list token -> list token.
  Variable ordP : list (token * token) -> list (token * token).
  Hypothesis ord_perm : forall l, Permutation (ord l) l.
  Hypothesis ordP_perm : forall l, Permutation (ordP l) l.

  Definition tm_line_of (e : (token * token) * (token * token * bool)) : token * token * token :=
    let '((p, a), (q, b, d)) := e in (p, tm_label a b d, q).
  Definition tm_trs (T : ttm) : list (token * token * token) := map tm_line_of (ttD T).

  Lemma tm_label_facts a b d p q :
    single_tm a -> single_tm b ->
    re_tm_label (tm_label a b d) = true /\ tm_key (tm_line_of ((p, a), (q, b, d))) = (p, a) /\
    tm_val (tm_line_of ((p, a), (q, b, d))) = (q, b, d) /\ lbl (tm_label a b d) 0 = a /\ lbl (tm_label a b d) 1 = b.
  Proof.
    intros [ca [-> Ha]] [cb [-> Hb]]. repeat split; try reflexivity.
    - cbn. rewrite Ha, Hb. destruct d; reflexivity.
    - destruct d; reflexivity.
  Qed.

  Theorem print_parse_tm : forall T,
    ttm_wf_b T = true -> NoDup (ttQ T) -> NoDup (map fst (ttD T)) ->
    (forall q, In q (ttQ T) -> re_word q = true) ->
    (forall p a v, In ((p, a), v) (ttD T) -> is_reserved kw_tm p = false) ->
    (forall g, In g (ttG T) -> single_tm g) ->
    exists T', parse_tm (print_tm ord ordP T) = Some T' /\ ttm_equiv T T'.
  Proof.
    intros T Hwf HnQ HnD HQ Hsrc HG.
    unfold ttm_wf_b in Hwf. rewrite !andb_true_iff in Hwf.
    destruct Hwf as [[[[[[[Hq0 Hqa] Hqr] Hneq] HbS] HbG] HSG] HD].
    apply mem_In in Hq0. apply mem_In in Hqa. apply mem_In in Hqr. apply negb_true_iff, eqb_neq in Hneq.
    apply negb_true_iff, mem_nIn in HbS. apply mem_In in HbG. apply subsetb_incl in HSG. rewrite forallb_forall in HD.
    assert (HDs : forall p a q b d, In ((p, a), (q, b, d)) (ttD T) -> In p (ttQ T) /\ In a (ttG T) /\ In q (ttQ T) /\ In b (ttG T)).
    { intros p a q b d Hin. specialize (HD _ Hin). cbn in HD. rewrite !andb_true_iff, !mem_In in HD. tauto. }
    set (header := [kw_states :: ord (ttQ T); [kw_initial; ttq0 T]; [kw_accept; ttqa T]; [kw_reject; ttqr T]; kw_input_symbols :: ord (ttS T);
                    kw_tape_symbols :: ord (ttG T); [kw_blank; ttblank T]]).
    set (items := [(kw_states, ord (ttQ T)); (kw_initial, [ttq0 T]); (kw_accept, [ttqa T]); (kw_reject, [ttqr T]); (kw_input_symbols, ord (ttS T));
                   (kw_tape_symbols, ord (ttG T)); (kw_blank, [ttblank T])]).
    assert (Hdecl : decls kw_tm header = items) by reflexivity.
    assert (HordQ_In : forall q, In q (ord (ttQ T)) <-> In q (ttQ T)) by (intros q; apply (seteq_perm _ _ (ord_perm _))).
    assert (HordS_In : forall q, In q (ord (ttS T)) <-> In q (ttS T)) by (intros q; apply (seteq_perm _ _ (ord_perm _))).
    assert (HordG_In : forall q, In q (ord (ttG T)) <-> In q (ttG T)) by (intros q; apply (seteq_perm _ _ (ord_perm _))).
    assert (HordQ : ord (ttQ T) <> []).
    { intros E. pose proof (proj2 (HordQ_In _) Hq0) as Hc. rewrite E in Hc. destruct Hc. }
    assert (Htrs : forall p l q, In (p, l, q) (tm_trs T) ->
              exists a b d, l = tm_label a b d /\ In ((p, a), (q, b, d)) (ttD T)).
    { intros p l q Hin. unfold tm_trs in Hin. apply in_map_iff in Hin.
      destruct Hin as [[[p' a] [[q' b] d]] [E Hin]]. cbn in E. inversion E; subst. exists a, b, d. auto. }
    assert (Hparse : parse_automaton re_word re_tm_label kw_tm (print_tm ord ordP T) =
                     Some (mkAut (ord (ttQ T)) (regroup ordP (tm_trs T)) [ttq0 T] [] items)).
    { change (print_tm ord ordP T) with (header ++ group_lines ordP (tm_trs T)).
      refine (eq_trans (parse_printed ordP ordP_perm re_word re_tm_label kw_tm header (tm_trs T) _ _ _) _).
      4:{ rewrite Hdecl. reflexivity. }
      - intros l Hl. split.
        + cbn in Hl. destruct Hl as [<-|[<-|[<-|[<-|[<-|[<-|[<-|[]]]]]]]]; reflexivity.
        + cbn [header In] in Hl. destruct Hl as [<-|[<-|[<-|[<-|[<-|[<-|[<-|[]]]]]]]]; try reflexivity.
          * apply line_ok_states; [exact HordQ | apply (Permutation_NoDup (Permutation_sym (ord_perm _)) HnQ) |].
            intros q Hq. apply HQ, HordQ_In, Hq.
          * apply line_ok_initial. apply (HQ _ Hq0).
      - rewrite Hdecl. cbn [map fst items]. apply has_dup_NoDup. reflexivity.
      - intros p l q Hin. destruct (Htrs p l q Hin) as [a [b [d [-> Hin']]]].
        destruct (HDs _ _ _ _ _ Hin') as [Hp [Ha [Hq Hb]]].
        repeat split; [apply good_state_trans; [apply HQ, Hp | apply (Hsrc _ _ _ Hin')] | apply HQ, Hp | apply HQ, Hq |].
        apply (tm_label_facts a b d p q (HG _ Ha) (HG _ Hb)). }
    pose proof (regroup_perm ordP ordP_perm (tm_trs T)) as Hperm.
    set (A := mkAut (ord (ttQ T)) (regroup ordP (tm_trs T)) [ttq0 T] [] items) in *.
    assert (HinT : forall t, In t (a_trans A) <-> In t (tm_trs T)).
    { intros t. cbn [A a_trans]. apply (seteq_perm _ _ Hperm). }
    assert (Hbuild : build_tm re_word A = Some (mkTTM (a_states A) (dedup (ord (ttS T))) (add (ttblank T) (dedup (ord (ttG T))))
                        (tm_delta_of (a_trans A)) (ttq0 T) (ttqa T) (ttqr T) (ttblank T))).
    { apply build_tm_intro.
      - exact HordQ.
      - intros s Hs. apply (proj1 (used_states_In _ _)) in Hs. cbn [A a_states a_init a_final] in *. apply HordQ_In.
        destruct Hs as [[<-|[]]|[[]|[p [l [q [Ht Hs]]]]]].
        + exact Hq0.
        + apply (proj1 (HinT _)) in Ht. destruct (Htrs p l q Ht) as [a [b [d [_ Hin']]]].
          destruct (HDs _ _ _ _ _ Hin') as [Hp [_ [Hq _]]]. destruct Hs as [-> | ->]; assumption.
      - intros s Hs. apply HordQ_In in Hs. apply (HQ s Hs).
      - reflexivity.
      - reflexivity.
      - reflexivity.
      - reflexivity.
      - reflexivity.
      - reflexivity.
      - intros p l q Hin. apply (proj1 (HinT _)) in Hin. destruct (Htrs p l q Hin) as [a [b [d [-> Hin']]]].
        destruct (HDs _ _ _ _ _ Hin') as [_ [Ha [_ Hb]]].
        destruct (tm_label_facts a b d p q (HG _ Ha) (HG _ Hb)) as [_ [_ [_ [E0 E1]]]].
        rewrite E0, E1, !HordG_In. auto.
      - apply HordQ_In, Hqa.
      - apply HordQ_In, Hqr.
      - exact Hneq.
      - intros Hc. apply HbS. apply HordS_In. exact Hc.
      - intros a Ha. apply HordG_In, HSG, HordS_In, Ha. }
    eexists. split.
    - rewrite parse_tm_unfold, Hparse. exact Hbuild.
    - unfold ttm_equiv. cbn [ttQ ttS ttG ttD ttq0 ttqa ttqr ttblank A a_states a_final a_trans].
      assert (Hkeys : NoDup (map tm_key (regroup ordP (tm_trs T)))).
      { apply (Permutation_NoDup (Permutation_sym (Permutation_map tm_key Hperm))).
        unfold tm_trs. rewrite map_map.
        assert (E : map (fun x => tm_key (tm_line_of x)) (ttD T) = map fst (ttD T)).
        { apply map_ext_in. intros [[p a] [[q b] d]] Hin. destruct (HDs _ _ _ _ _ Hin) as [_ [Ha [_ Hb]]].
          apply (tm_label_facts a b d p q (HG _ Ha) (HG _ Hb)). }
        rewrite E. exact HnD. }
      assert (Hlk : forall k v, lookup k (tm_delta_of (regroup ordP (tm_trs T))) = Some v <-> In (k, v) (ttD T)).
      { intros k v. unfold tm_delta_of. rewrite (fold_update_lookup tm_key tm_val _ Hkeys). cbn [lookup]. split.
        - intros [[x [Hx [Hk Hv]]]|[_ Hc]]; [|discriminate].
          apply (seteq_perm _ _ Hperm) in Hx. unfold tm_trs in Hx. apply in_map_iff in Hx.
          destruct Hx as [[[p a] [[q b] d]] [<- Hin]]. destruct (HDs _ _ _ _ _ Hin) as [_ [Ha [_ Hb]]].
          destruct (tm_label_facts a b d p q (HG _ Ha) (HG _ Hb)) as [_ [E1 [E2 _]]].
          rewrite E1 in Hk. rewrite E2 in Hv. subst k v. exact Hin.
        - intros Hin. left. exists (tm_line_of (k, v)). split.
          + apply (seteq_perm _ _ Hperm). unfold tm_trs. apply in_map. exact Hin.
          + destruct k as [p a]. destruct v as [[q b] d]. destruct (HDs _ _ _ _ _ Hin) as [_ [Ha [_ Hb]]].
            destruct (tm_label_facts a b d p q (HG _ Ha) (HG _ Hb)) as [_ [E1 [E2 _]]]. auto. }
      repeat split; try (apply HordQ_In).
      + intros Hx. apply dedup_In, HordS_In, Hx.
      + intros Hx. apply HordS_In. rewrite dedup_In in Hx. exact Hx.
      + intros Hx. apply add_In. right. apply dedup_In, HordG_In, Hx.
      + intros Hx. apply add_In in Hx. destruct Hx as [-> | Hx]; [exact HbG|]. apply HordG_In. rewrite dedup_In in Hx. exact Hx.
      + intros k. destruct (lookup k (ttD T)) as [v|] eqn:E.
        * symmetry. apply Hlk. apply lookup_In. exact E.
        * destruct (lookup k (tm_delta_of (regroup ordP (tm_trs T)))) as [v|] eqn:E'; [|reflexivity].
          apply Hlk in E'. rewrite lookup_None in E. destruct (E v E').
  Qed.
End RoundTripTM.

(* ------------------------------------------------------------------ *)
(* Part C.3 (builders): aut_equiv automata are built into equivalent objects *)
(* ------------------------------------------------------------------ *)
Lemma bool_eq_iff (b1 b2 : bool) : (b1 = true <-> b2 = true) -> b1 = b2.
Proof. destruct b1, b2; intros [H1 H2]; try reflexivity; [symmetry; apply H1; reflexivity | apply H2; reflexivity]. Qed.

Section SeteqBool.
  Context {X : Type} `{Eqb X}.
  Lemma mem_seteq (x : X) l l' : seteq l l' -> mem x l = mem x l'.
  Proof. intros Hs. apply bool_eq_iff. rewrite !mem_In. apply Hs. Qed.
  Lemma forallb_seteq (f : X -> bool) l l' : seteq l l' -> forallb f l = forallb f l'.
  Proof.
    intros Hs. apply bool_eq_iff. rewrite !forallb_forall. split; intros Hf x Hx; apply Hf, Hs, Hx.
  Qed.
  Lemma existsb_seteq (f : X -> bool) l l' : seteq l l' -> existsb f l = existsb f l'.
  Proof.
    intros Hs. apply bool_eq_iff. rewrite !existsb_exists. split; intros [x [Hx Hf]]; exists x; split; try exact Hf; apply Hs, Hx.
  Qed.
  Lemma subsetb_seteq (a a' b b' : list X) : seteq a a' -> seteq b b' -> subsetb a b = subsetb a' b'.
  Proof.
    intros Ha Hb. apply bool_eq_iff. rewrite !subsetb_incl. split; intros Hi x Hx; apply Hb, Hi, Ha, Hx.
  Qed.
  Lemma seteq_refl (l : list X) : seteq l l. Proof. intros x; tauto. Qed.
  Lemma seteq_sym (l l' : list X) : seteq l l' -> seteq l' l. Proof. intros Hs x. symmetry. apply Hs. Qed.
  Lemma seteq_trans (l1 l2 l3 : list X) : seteq l1 l2 -> seteq l2 l3 -> seteq l1 l3.
  Proof. intros H1 H2 x. rewrite (H1 x). apply H2. Qed.
  Lemma seteq_dedup (l l' : list X) : seteq l l' -> seteq (dedup l) (dedup l').
  Proof. intros Hs x. rewrite !dedup_In. apply Hs. Qed.
  Lemma seteq_filter (f : X -> bool) l l' : seteq l l' -> seteq (filter f l) (filter f l').
  Proof. intros Hs x. rewrite !filter_In, (Hs x). tauto. Qed.
  Lemma seteq_add (x : X) l l' : seteq l l' -> seteq (add x l) (add x l').
  Proof. intros Hs y. rewrite !add_In, (Hs y). tauto. Qed.
  Lemma seteq_union (l1 l1' l2 : list X) : seteq l1 l1' -> seteq (union l1 l2) (union l1' l2).
  Proof. intros Hs y. rewrite !union_In, (Hs y). tauto. Qed.
End SeteqBool.

Lemma forallb_ext {X} (f g : X -> bool) l : (forall x, f x = g x) -> forallb f l = forallb g l.
Proof. intros He. induction l as [|x l IH]; [reflexivity|]. cbn [forallb]. rewrite He, IH. reflexivity. Qed.

Lemma seteq_map {X Y} (f : X -> Y) l l' : seteq l l' -> seteq (map f l) (map f l').
Proof. intros Hs y. rewrite !in_map_iff. split; intros [x [E Hx]]; exists x; split; try exact E; apply Hs, Hx. Qed.
Lemma seteq_flat_map {X Y} (f : X -> list Y) l l' : seteq l l' -> seteq (flat_map f l) (flat_map f l').
Proof. intros Hs y. rewrite !in_flat_map. split; intros [x [Hx E]]; exists x; split; try exact E; apply Hs, Hx. Qed.

Lemma aut_equiv_trans_seteq A B : aut_equiv A B -> seteq (a_trans A) (a_trans B).
Proof. intros [_ [_ [_ [Hp _]]]]. apply seteq_perm, Hp. Qed.

Lemma used_states_equiv A B : aut_equiv A B -> seteq (used_states A) (used_states B).
Proof.
  intros He s. pose proof (aut_equiv_trans_seteq A B He) as Ht. destruct He as [_ [Hi [Hf _]]].
  rewrite !used_states_In, Hi, Hf. split.
  - intros [H1|[H1|[p [a [q [Hin Hs]]]]]]; [auto | auto |]. right; right. exists p, a, q. split; [apply Ht, Hin | exact Hs].
  - intros [H1|[H1|[p [a [q [Hin Hs]]]]]]; [auto | auto |]. right; right. exists p, a, q. split; [apply Ht, Hin | exact Hs].
Qed.

Lemma states_or_used_equiv A B : aut_equiv A B -> seteq (states_or_used A) (states_or_used B).
Proof.
  intros He. pose proof (used_states_equiv A B He) as Hu. destruct He as [Hs _].
  unfold states_or_used. rewrite <- Hs. destruct (a_states A); [exact Hu | apply seteq_refl].
Qed.

Lemma check_common_equiv sre st st' A B :
  aut_equiv A B -> seteq st st' -> check_common sre st A = check_common sre st' B.
Proof.
  intros He Hst. unfold check_common.
  rewrite (subsetb_seteq _ _ _ _ (used_states_equiv A B He) Hst), (forallb_seteq sre _ _ Hst).
  destruct He as [_ [Hi _]]. rewrite Hi. reflexivity.
Qed.

Lemma get_symbol_set_equiv A B k u u' :
  aut_equiv A B -> seteq u u' -> opt_rel seteq (get_symbol_set A k u) (get_symbol_set B k u').
Proof.
  intros He Hu. destruct He as [_ [_ [_ [_ [_ Hl]]]]]. unfold get_symbol_set. rewrite <- (Hl k).
  destruct (lookup k (a_items A)) as [decl|]; [|exact Hu].
  rewrite (subsetb_seteq _ _ _ _ Hu (seteq_refl (dedup decl))).
  destruct (subsetb u' (dedup decl)); [apply seteq_refl | exact I].
Qed.

Lemma get_single_equiv A B k d : aut_equiv A B -> get_single A k d = get_single B k d.
Proof. intros [_ [_ [_ [_ [_ Hl]]]]]. unfold get_single. rewrite (Hl k). reflexivity. Qed.

Lemma parse_symbol_equiv A B k c d : aut_equiv A B -> parse_symbol A k c d = parse_symbol B k c d.
Proof.
  intros He. unfold parse_symbol. rewrite (get_single_equiv A B k d He).
  pose proof (aut_equiv_trans_seteq A B He) as Ht. destruct He as [_ [_ [_ [_ [_ Hl]]]]]. rewrite (Hl k).
  destruct (lookup k (a_items B)); [reflexivity|].
  rewrite (existsb_seteq _ _ _ Ht). reflexivity.
Qed.

(* ---- DFA ---- *)
Lemma tdfa_wf_b_equiv D D' : tdfa_equiv D D' -> tdfa_wf_b D = tdfa_wf_b D'.
Proof.
  intros [HQ [HS [HD [HL [Hq HF]]]]]. unfold tdfa_wf_b.
  rewrite Hq, (mem_seteq _ _ _ HQ), (subsetb_seteq _ _ _ _ HF HQ), (forallb_seteq _ _ _ HD), (forallb_seteq _ _ _ HQ).
  f_equal; [f_equal|].
  - apply forallb_ext. intros [[q a] q1]. rewrite (mem_seteq q _ _ HQ), (mem_seteq a _ _ HS), (mem_seteq q1 _ _ HQ). reflexivity.
  - apply forallb_ext. intros q. rewrite (forallb_seteq _ _ _ HS). apply forallb_ext. intros a. rewrite (HL (q, a)). reflexivity.
Qed.

Lemma dfa_keys_perm A B : aut_equiv A B -> Permutation (dfa_keys A) (dfa_keys B).
Proof. intros [_ [_ [_ [Hp _]]]]. unfold dfa_keys. apply Permutation_map, Hp. Qed.

Theorem build_dfa_equiv : forall sre A B, aut_equiv A B -> opt_rel tdfa_equiv (build_dfa sre A) (build_dfa sre B).
Proof.
  intros sre A B He. unfold build_dfa.
  pose proof (states_or_used_equiv A B He) as Hst.
  rewrite (check_common_equiv sre _ _ A B He Hst).
  destruct (check_common sre (states_or_used B) B); cbn [negb]; [|exact I].
  fold (dfa_keys A). fold (dfa_keys B).
  pose proof (dfa_keys_perm A B He) as Hk.
  assert (Hdet : Nat.eqb (length (dedup (dfa_keys A))) (length (dfa_keys A)) = Nat.eqb (length (dedup (dfa_keys B))) (length (dfa_keys B))).
  { apply bool_eq_iff. rewrite !Nat.eqb_eq, !dedup_length_NoDup. split; apply Permutation_NoDup; [exact Hk | apply Permutation_sym, Hk]. }
  rewrite Hdet. destruct (Nat.eqb (length (dedup (dfa_keys B))) (length (dfa_keys B))) eqn:Hdb; cbn [negb]; [|exact I].
  apply Nat.eqb_eq, dedup_length_NoDup in Hdb.
  assert (Hks : seteq (dfa_keys A) (dfa_keys B)) by (apply seteq_perm, Hk).
  pose proof (get_symbol_set_equiv A B kw_input_symbols _ _ He (seteq_dedup _ _ (seteq_map snd _ _ Hks))) as Hg.
  destruct (get_symbol_set A kw_input_symbols _) as [sg|]; destruct (get_symbol_set B kw_input_symbols _) as [sg'|]; cbn [opt_rel] in Hg; try contradiction; [|exact I].
  rewrite (forallb_seteq re_word _ _ Hg). destruct (forallb re_word sg'); cbn [negb]; [|exact I].
  assert (Htot : forallb (fun p => forallb (fun a => mem (p, a) (dfa_keys A)) sg) (states_or_used A) =
                 forallb (fun p => forallb (fun a => mem (p, a) (dfa_keys B)) sg') (states_or_used B)).
  { rewrite (forallb_seteq _ _ _ Hst). apply forallb_ext. intros p. rewrite (forallb_seteq _ _ _ Hg).
    apply forallb_ext. intros a. apply mem_seteq, Hks. }
  rewrite Htot. destruct (forallb _ (states_or_used B)); cbn [negb]; [|exact I].
  fold (dfa_delta_of (a_trans A)). fold (dfa_delta_of (a_trans B)).
  assert (Hpd : Permutation (dfa_delta_of (a_trans A)) (dfa_delta_of (a_trans B))).
  { unfold dfa_delta_of. apply Permutation_map. apply He. }
  assert (Heq : tdfa_equiv (mkTDFA (states_or_used A) sg (dfa_delta_of (a_trans A)) (hd [] (a_init A)) (a_final A))
                           (mkTDFA (states_or_used B) sg' (dfa_delta_of (a_trans B)) (hd [] (a_init B)) (a_final B))).
  { unfold tdfa_equiv. cbn [tdQ tdS tdD tdq0 tdF]. destruct He as [_ [Hi [Hf _]]]. rewrite Hi, Hf.
    repeat split; try (apply Hst); try (apply Hg); try (apply (seteq_perm _ _ Hpd)); try tauto.
    intros k. apply lookup_perm; [|exact Hpd].
    assert (Ek : map fst (dfa_delta_of (a_trans A)) = dfa_keys A).
    { unfold dfa_delta_of, dfa_keys. rewrite map_map. apply map_ext. intros [[p a] q]. reflexivity. }
    rewrite Ek. apply (Permutation_NoDup (Permutation_sym Hk) Hdb). }
  rewrite (tdfa_wf_b_equiv _ _ Heq). destruct (tdfa_wf_b _); [exact Heq | exact I].
Qed.

(* ---- NFA ---- *)
Lemma group_nfa_wf Q Sg trs q0 F eps :
  tnfa_wf_b (mkTNFA Q Sg (group_nfa trs) q0 F eps) = true <->
  In q0 Q /\ incl F Q /\ ~ In eps Sg /\ forall p a q, In (p, a, q) trs -> In p Q /\ (In a Sg \/ a = eps) /\ In q Q.
Proof.
  unfold tnfa_wf_b. cbn [tnQ tnS tnD tnq0 tnF tneps].
  rewrite !andb_true_iff, mem_In, subsetb_incl, negb_true_iff, mem_nIn, forallb_forall. split.
  - intros [[[H1 H2] H3] H4]. split; [exact H1|]. split; [exact H2|]. split; [exact H3|].
    intros p a q Hin. apply (proj2 (group_nfa_target trs p a q)) in Hin. destruct Hin as [s [Hl Hq]]. apply lookup_In in Hl.
    specialize (H4 _ Hl). cbn in H4. rewrite !andb_true_iff, orb_true_iff, !mem_In, subsetb_incl in H4.
    destruct H4 as [[Hp Ha] Hs]. split; [exact Hp|]. split; [|apply Hs, Hq].
    destruct Ha as [Ha|Ha]; [left; exact Ha | right; apply eqb_true; exact Ha].
  - intros [H1 [H2 [H3 H4]]]. repeat split; try assumption.
    intros [[p a] s] Hin. apply group_nfa_entry in Hin. destruct Hin as [Hne Hall].
    destruct s as [|q s]; [contradiction|].
    destruct (H4 p a q (Hall q (or_introl eq_refl))) as [Hp [Ha _]].
    rewrite !andb_true_iff, orb_true_iff, !mem_In, subsetb_incl. repeat split.
    + exact Hp.
    + destruct Ha as [Ha| ->]; [left; exact Ha | right; apply eqb_refl].
    + intros q' Hq'. apply (H4 p a q' (Hall q' Hq')).
Qed.

Theorem build_nfa_equiv : forall sre A B, aut_equiv A B -> opt_rel tnfa_equiv (build_nfa sre A) (build_nfa sre B).
Proof.
  intros sre A B He. unfold build_nfa.
  pose proof (states_or_used_equiv A B He) as Hst.
  pose proof (aut_equiv_trans_seteq A B He) as Ht.
  rewrite (check_common_equiv sre _ _ A B He Hst).
  destruct (check_common sre (states_or_used B) B); cbn [negb]; [|exact I].
  rewrite (parse_symbol_equiv A B _ _ _ He).
  destruct (parse_symbol B kw_epsilon c_eps [c_underscore]) as [eps|]; [|exact I].
  pose proof (get_symbol_set_equiv A B kw_input_symbols _ _ He
               (seteq_dedup _ _ (seteq_filter (fun a => negb (eqb a eps)) _ _ (seteq_map (fun t : token * token * token => let '(_, a, _) := t in a) _ _ Ht)))) as Hg.
  destruct (get_symbol_set A kw_input_symbols _) as [sg|]; destruct (get_symbol_set B kw_input_symbols _) as [sg'|]; cbn [opt_rel] in Hg; try contradiction; [|exact I].
  rewrite (forallb_seteq re_word _ _ Hg). destruct (forallb re_word sg'); cbn [negb]; [|exact I].
  destruct He as [_ [Hi [Hf _]]]. rewrite Hi, Hf.
  assert (Hwf : tnfa_wf_b (mkTNFA (states_or_used A) sg (group_nfa (a_trans A)) (hd [] (a_init B)) (a_final B) eps) =
                tnfa_wf_b (mkTNFA (states_or_used B) sg' (group_nfa (a_trans B)) (hd [] (a_init B)) (a_final B) eps)).
  { apply bool_eq_iff. rewrite !group_nfa_wf. unfold incl.
    split; intros [H1 [H2 [H3 H4]]].
    - split; [apply Hst, H1|]. split; [intros x Hx; apply Hst, H2, Hx|]. split; [intros Hc; apply H3, Hg, Hc|].
      intros p a q Hin. destruct (H4 p a q (proj2 (Ht _) Hin)) as [Hp [Ha Hq]].
      split; [apply Hst, Hp|]. split; [|apply Hst, Hq]. destruct Ha as [Ha|Ha]; [left; apply Hg, Ha | right; exact Ha].
    - split; [apply Hst, H1|]. split; [intros x Hx; apply Hst, H2, Hx|]. split; [intros Hc; apply H3, Hg, Hc|].
      intros p a q Hin. destruct (H4 p a q (proj1 (Ht _) Hin)) as [Hp [Ha Hq]].
      split; [apply Hst, Hp|]. split; [|apply Hst, Hq]. destruct Ha as [Ha|Ha]; [left; apply Hg, Ha | right; exact Ha]. }
  rewrite Hwf. clear Hwf. destruct (tnfa_wf_b _); [|exact I].
  unfold opt_rel, tnfa_equiv. cbn [tnQ tnS tnD tnq0 tnF tneps].
  repeat split; try (apply Hst); try (apply Hg); try tauto.
  - intros Hs. unfold tn_step in *. cbn [tnD] in *. apply group_nfa_target. apply Ht. apply group_nfa_target. exact Hs.
  - intros Hs. unfold tn_step in *. cbn [tnD] in *. apply group_nfa_target. apply Ht. apply group_nfa_target. exact Hs.
Qed.

(* ---- PDA ---- *)
Lemma tpda_wf_b_equiv P P' : tpda_equiv P P' -> tpda_wf_b P = tpda_wf_b P'.
Proof.
  intros [HQ [HS [HG [HD [Hq [HF He]]]]]]. unfold tpda_wf_b.
  rewrite Hq, He, (mem_seteq _ _ _ HQ), (mem_seteq _ _ _ HS), (mem_seteq _ _ _ HG), (subsetb_seteq _ _ _ _ HF HQ), (forallb_seteq _ _ _ HD).
  f_equal. apply forallb_ext. intros [[[[p a] u] q] v].
  rewrite (mem_seteq p _ _ HQ), (mem_seteq a _ _ HS), (mem_seteq u _ _ HG), (mem_seteq q _ _ HQ), (mem_seteq v _ _ HG). reflexivity.
Qed.

Theorem build_pda_equiv : forall sre A B, aut_equiv A B -> opt_rel tpda_equiv (build_pda sre A) (build_pda sre B).
Proof.
  intros sre A B He. unfold build_pda.
  pose proof (states_or_used_equiv A B He) as Hst.
  pose proof (aut_equiv_trans_seteq A B He) as Ht.
  rewrite (check_common_equiv sre _ _ A B He Hst).
  destruct (check_common sre (states_or_used B) B); cbn [negb]; [|exact I].
  rewrite (parse_symbol_equiv A B _ _ _ He).
  destruct (parse_symbol B kw_epsilon c_eps [c_underscore]) as [eps|]; [|exact I].
  pose proof (seteq_map (fun t : token * token * token => let '(_, a, _) := t in a) _ _ Ht) as Hlab.
  pose proof (get_symbol_set_equiv A B kw_input_symbols _ _ He
               (seteq_dedup _ _ (seteq_filter (fun a => negb (eqb a eps)) _ _ (seteq_map (fun l => lbl l 0) _ _ Hlab)))) as Hg.
  pose proof (get_symbol_set_equiv A B kw_stack_symbols _ _ He
               (seteq_dedup _ _ (seteq_filter (fun a => negb (eqb a eps)) _ _ (seteq_flat_map (fun l => [lbl l 2; lbl l 3]) _ _ Hlab)))) as Hg2.
  destruct (get_symbol_set A kw_input_symbols _) as [sg|]; destruct (get_symbol_set B kw_input_symbols _) as [sg'|]; cbn [opt_rel] in Hg; try contradiction.
  2:{ destruct (get_symbol_set A kw_stack_symbols _); destruct (get_symbol_set B kw_stack_symbols _); exact I. }
  destruct (get_symbol_set A kw_stack_symbols _) as [gm|]; destruct (get_symbol_set B kw_stack_symbols _) as [gm'|]; cbn [opt_rel] in Hg2; try contradiction; [|exact I].
  rewrite (forallb_seteq re_word _ _ Hg). destruct (forallb re_word sg'); cbn [negb]; [|exact I].
  change (map (fun t : token * token * token => let '(p, l, q) := t in (p, lbl l 0, lbl l 2, q, lbl l 3)) (a_trans A)) with (map pda_tuple_of (a_trans A)).
  change (map (fun t : token * token * token => let '(p, l, q) := t in (p, lbl l 0, lbl l 2, q, lbl l 3)) (a_trans B)) with (map pda_tuple_of (a_trans B)).
  assert (Heq : tpda_equiv (mkTPDA (states_or_used A) sg gm (dedup (map pda_tuple_of (a_trans A))) (hd [] (a_init A)) (a_final A) eps)
                           (mkTPDA (states_or_used B) sg' gm' (dedup (map pda_tuple_of (a_trans B))) (hd [] (a_init B)) (a_final B) eps)).
  { unfold tpda_equiv. cbn [tpQ tpS tpG tpD tpq0 tpF tpeps]. destruct He as [_ [Hi [Hf _]]]. rewrite Hi, Hf.
    repeat split; try (apply Hst); try (apply Hg); try (apply Hg2); try tauto;
      apply (seteq_dedup _ _ (seteq_map pda_tuple_of _ _ Ht)). }
  rewrite (tpda_wf_b_equiv _ _ Heq). destruct (tpda_wf_b _); [exact Heq | exact I].
Qed.

(* ---- TM ---- *)
Definition tm_used_tape (A : automaton) : list token :=
  dedup (flat_map (fun l => [lbl l 0; lbl l 1]) (map (fun t : token * token * token => let '(_, a, _) := t in a) (a_trans A))).
Definition tm_sigma (A : automaton) (blank : token) (tape : list token) : list token :=
  match lookup kw_input_symbols (a_items A) with
  | Some declared => dedup declared
  | None => filter (fun a => negb (eqb a blank)) tape
  end.

Lemma tm_delta_of_eq trs :
  fold_left (fun d (t : token * token * token) => let '(p, l, q) := t in
     update (p, lbl l 0) (q, lbl l 1, match nth_error l 3 with Some c => Nat.eqb c c_L | None => false end) d) trs [] = tm_delta_of trs.
Proof. unfold tm_delta_of, fold_update. apply fold_left_ext. intros d [[p l] q]. reflexivity. Qed.

Lemma build_tm_alt sre A :
  build_tm sre A =
  match get_single A kw_accept (fresh_state_tok (a_states A) kw_accept), get_single A kw_reject (fresh_state_tok (a_states A) kw_reject) with
  | Some qa, Some qr =>
    if negb (check_common sre (tm_states A qa qr) A) then None
    else match parse_symbol A kw_blank c_box [c_underscore] with
         | None => None
         | Some blank =>
           match get_symbol_set A kw_tape_symbols (tm_used_tape A) with
           | None => None
           | Some tape =>
             let T := mkTTM (tm_states A qa qr) (tm_sigma A blank tape) (add blank tape) (tm_delta_of (a_trans A)) (hd [] (a_init A)) qa qr blank in
             if ttm_wf_b T then Some T else None
           end
         end
  | _, _ => None
  end.
Proof. unfold build_tm. rewrite tm_delta_of_eq. reflexivity. Qed.

Lemma tm_delta_In trs k v :
  NoDup (map tm_key trs) -> In (k, v) (tm_delta_of trs) <-> exists x, In x trs /\ tm_key x = k /\ tm_val x = v.
Proof.
  intros Hn. unfold tm_delta_of. split.
  - intros Hin. apply fold_update_In in Hin. destruct Hin as [[]|Hx]. exact Hx.
  - intros Hx. apply lookup_In. apply (fold_update_lookup tm_key tm_val trs Hn). left. exact Hx.
Qed.

Lemma tm_delta_lookup trs k v :
  NoDup (map tm_key trs) -> lookup k (tm_delta_of trs) = Some v <-> exists x, In x trs /\ tm_key x = k /\ tm_val x = v.
Proof.
  intros Hn. unfold tm_delta_of. rewrite (fold_update_lookup tm_key tm_val trs Hn). cbn [lookup]. split.
  - intros [Hx|[_ Hc]]; [exact Hx | discriminate].
  - intros Hx. left. exact Hx.
Qed.

Lemma option_eq_iff {X} (o1 o2 : option X) : (forall v, o1 = Some v <-> o2 = Some v) -> o1 = o2.
Proof.
  intros Hv. destruct o1 as [x|].
  - symmetry. apply Hv. reflexivity.
  - destruct o2 as [y|]; [|reflexivity]. apply Hv. reflexivity.
Qed.

Lemma ttm_wf_b_seteq T T' :
  seteq (ttQ T) (ttQ T') -> seteq (ttS T) (ttS T') -> seteq (ttG T) (ttG T') -> seteq (ttD T) (ttD T') ->
  ttq0 T = ttq0 T' -> ttqa T = ttqa T' -> ttqr T = ttqr T' -> ttblank T = ttblank T' -> ttm_wf_b T = ttm_wf_b T'.
Proof.
  intros HQ HS HG HD H0 Ha Hr Hb. unfold ttm_wf_b.
  rewrite H0, Ha, Hr, Hb, !(mem_seteq _ _ _ HQ), (mem_seteq _ _ _ HS), (mem_seteq _ _ _ HG), (subsetb_seteq _ _ _ _ HS HG), (forallb_seteq _ _ _ HD).
  f_equal. apply forallb_ext. intros [[p a] [[q b] d]].
  rewrite (mem_seteq p _ _ HQ), (mem_seteq a _ _ HG), (mem_seteq q _ _ HQ), (mem_seteq b _ _ HG). reflexivity.
Qed.

Theorem build_tm_equiv : forall sre A B, aut_equiv A B -> NoDup (map tm_key (a_trans A)) ->
  opt_rel ttm_equiv (build_tm sre A) (build_tm sre B).
Proof.
  intros sre A B He Hn. rewrite !build_tm_alt.
  pose proof (aut_equiv_trans_seteq A B He) as Ht.
  pose proof (used_states_equiv A B He) as Hu.
  assert (Hn' : NoDup (map tm_key (a_trans B))).
  { destruct He as [_ [_ [_ [Hp _]]]]. apply (Permutation_NoDup (Permutation_map tm_key Hp) Hn). }
  assert (Hs : a_states A = a_states B) by apply He.
  rewrite !(get_single_equiv A B _ _ He), Hs.
  destruct (get_single B kw_accept _) as [qa|]; [|exact I].
  destruct (get_single B kw_reject _) as [qr|]; [|exact I].
  assert (Hst : seteq (tm_states A qa qr) (tm_states B qa qr)).
  { unfold tm_states. rewrite Hs. destruct (a_states B); [apply seteq_union; exact Hu | apply seteq_refl]. }
  rewrite (check_common_equiv sre _ _ A B He Hst).
  destruct (check_common sre (tm_states B qa qr) B); cbn [negb]; [|exact I].
  rewrite (parse_symbol_equiv A B _ _ _ He).
  destruct (parse_symbol B kw_blank c_box [c_underscore]) as [blank|]; [|exact I].
  pose proof (seteq_map (fun t : token * token * token => let '(_, a, _) := t in a) _ _ Ht) as Hlab.
  pose proof (get_symbol_set_equiv A B kw_tape_symbols (tm_used_tape A) (tm_used_tape B) He
               (seteq_dedup _ _ (seteq_flat_map (fun l => [lbl l 0; lbl l 1]) _ _ Hlab))) as Hg.
  destruct (get_symbol_set A kw_tape_symbols _) as [tp|]; destruct (get_symbol_set B kw_tape_symbols _) as [tp'|]; cbn [opt_rel] in Hg; try contradiction; [|exact I].
  cbv zeta.
  assert (Hsig : seteq (tm_sigma A blank tp) (tm_sigma B blank tp')).
  { unfold tm_sigma. destruct He as [_ [_ [_ [_ [_ Hl]]]]]. rewrite (Hl kw_input_symbols).
    destruct (lookup kw_input_symbols (a_items B)); [apply seteq_refl | apply seteq_filter; exact Hg]. }
  assert (HD : seteq (tm_delta_of (a_trans A)) (tm_delta_of (a_trans B))).
  { intros [k v]. rewrite (tm_delta_In _ k v Hn), (tm_delta_In _ k v Hn').
    split; intros [x [Hx Hkv]]; exists x; split; try exact Hkv; apply Ht, Hx. }
  assert (Hi : a_init A = a_init B) by apply He. rewrite Hi.
  assert (Hwf : ttm_wf_b (mkTTM (tm_states A qa qr) (tm_sigma A blank tp) (add blank tp) (tm_delta_of (a_trans A)) (hd [] (a_init B)) qa qr blank) =
                ttm_wf_b (mkTTM (tm_states B qa qr) (tm_sigma B blank tp') (add blank tp') (tm_delta_of (a_trans B)) (hd [] (a_init B)) qa qr blank)).
  { apply ttm_wf_b_seteq; cbn [ttQ ttS ttG ttD ttq0 ttqa ttqr ttblank]; try reflexivity; try assumption.
    apply seteq_add; exact Hg. }
  rewrite Hwf. clear Hwf. destruct (ttm_wf_b _); [|exact I].
  unfold opt_rel, ttm_equiv. cbn [ttQ ttS ttG ttD ttq0 ttqa ttqr ttblank].
  repeat split; try (apply Hst); try (apply Hsig); try (apply (seteq_add blank _ _ Hg)).
  intros k. apply option_eq_iff. intros v. rewrite (tm_delta_lookup _ k v Hn), (tm_delta_lookup _ k v Hn').
  split; intros [x [Hx Hkv]]; exists x; split; try exact Hkv; apply Ht, Hx.
Qed.

(* ------------------------------------------------------------------ *)
(* Exactness: what a successful build returns (omitted declarations are derived) *)
(* ------------------------------------------------------------------ *)
Lemma get_symbol_set_Some A k used s :
  get_symbol_set A k used = Some s ->
  (exists d, lookup k (a_items A) = Some d /\ s = dedup d /\ incl used d) \/ (lookup k (a_items A) = None /\ s = used).
Proof.
  unfold get_symbol_set. destruct (lookup k (a_items A)) as [d|].
  - destruct (subsetb used (dedup d)) eqn:E; [|discriminate]. intros Hs; inversion Hs; subst.
    left. exists d. repeat split. apply subsetb_incl in E. intros x Hx. apply (dedup_In x d). apply E, Hx.
  - intros Hs; inversion Hs; subst. right. auto.
Qed.

Lemma parse_symbol_Some A k c d e :
  parse_symbol A k c d = Some e ->
  lookup k (a_items A) = Some [e] \/
  (lookup k (a_items A) = None /\
   ((e = [c] /\ exists p a q, In (p, a, q) (a_trans A) /\ In c a) \/ (e = d /\ forall p a q, In (p, a, q) (a_trans A) -> ~ In c a))).
Proof.
  unfold parse_symbol, get_single. destruct (lookup k (a_items A)) as [[|v [|v' r]]|]; try discriminate.
  - intros E; inversion E; subst. left; reflexivity.
  - destruct (existsb _ (a_trans A)) eqn:Ex; intros E; inversion E; subst; right; split; try reflexivity.
    + left. split; [reflexivity|]. apply existsb_exists in Ex. destruct Ex as [[[p a] q] [Hin Hc]].
      exists p, a, q. split; [exact Hin|]. apply mem_In. exact Hc.
    + right. split; [reflexivity|]. intros p a q Hin Hc.
      assert (Ht : existsb (fun t : token * token * token => let '(_, a0, _) := t in contains_char c a0) (a_trans A) = true).
      { apply existsb_exists. exists (p, a, q). split; [exact Hin | apply mem_In; exact Hc]. }
      congruence.
Qed.

Lemma check_common_true sre st A :
  check_common sre st A = true -> incl (used_states A) st /\ (forall s, In s st -> sre s = true) /\ length (dedup (a_init A)) = 1.
Proof.
  unfold check_common. rewrite !andb_true_iff, subsetb_incl, forallb_forall, Nat.eqb_eq. tauto.
Qed.

Theorem build_dfa_exact : forall sre A D, build_dfa sre A = Some D ->
  tdQ D = states_or_used A /\ get_symbol_set A kw_input_symbols (dedup (map snd (dfa_keys A))) = Some (tdS D) /\
  tdD D = dfa_delta_of (a_trans A) /\ tdq0 D = hd [] (a_init A) /\ tdF D = a_final A /\
  length (dedup (a_init A)) = 1 /\ NoDup (dfa_keys A) /\ incl (used_states A) (tdQ D) /\ (forall s, In s (tdQ D) -> sre s = true).
Proof.
  intros sre A D. unfold build_dfa. fold (dfa_keys A). intros Hb.
  destruct (check_common sre (states_or_used A) A) eqn:Hc; cbn [negb] in Hb; [|discriminate].
  destruct (Nat.eqb (length (dedup (dfa_keys A))) (length (dfa_keys A))) eqn:Hd; cbn [negb] in Hb; [|discriminate].
  destruct (get_symbol_set A kw_input_symbols _) as [sigma|]; [|discriminate].
  destruct (negb (forallb re_word sigma)); [discriminate|].
  destruct (negb (forallb _ (states_or_used A))); [discriminate|].
  match type of Hb with (if ?b then _ else _) = _ => destruct b; [|discriminate] end.
  inversion Hb; subst. cbn [tdQ tdS tdD tdq0 tdF].
  apply check_common_true in Hc. destruct Hc as [Hu [Hs Hi]].
  apply Nat.eqb_eq, dedup_length_NoDup in Hd. repeat split; assumption.
Qed.

Theorem build_nfa_exact : forall sre A N, build_nfa sre A = Some N ->
  tnQ N = states_or_used A /\ parse_symbol A kw_epsilon c_eps [c_underscore] = Some (tneps N) /\
  get_symbol_set A kw_input_symbols
    (dedup (filter (fun a => negb (eqb a (tneps N))) (map (fun t : token * token * token => let '(_, a, _) := t in a) (a_trans A)))) = Some (tnS N) /\
  tnD N = group_nfa (a_trans A) /\ tnq0 N = hd [] (a_init A) /\ tnF N = a_final A /\
  length (dedup (a_init A)) = 1 /\ incl (used_states A) (tnQ N) /\ (forall s, In s (tnQ N) -> sre s = true).
Proof.
  intros sre A N. unfold build_nfa. intros Hb.
  destruct (check_common sre (states_or_used A) A) eqn:Hc; cbn [negb] in Hb; [|discriminate].
  destruct (parse_symbol A kw_epsilon c_eps [c_underscore]) as [eps|]; [|discriminate].
  destruct (get_symbol_set A kw_input_symbols _) as [sigma|] eqn:Hg; [|discriminate].
  destruct (negb (forallb re_word sigma)); [discriminate|].
  match type of Hb with (if ?b then _ else _) = _ => destruct b; [|discriminate] end.
  inversion Hb; subst. cbn [tnQ tnS tnD tnq0 tnF tneps].
  apply check_common_true in Hc. destruct Hc as [Hu [Hs Hi]]. repeat split; assumption.
Qed.

Theorem build_pda_exact : forall sre A P, build_pda sre A = Some P ->
  let labels := map (fun t : token * token * token => let '(_, a, _) := t in a) (a_trans A) in
  tpQ P = states_or_used A /\ parse_symbol A kw_epsilon c_eps [c_underscore] = Some (tpeps P) /\
  get_symbol_set A kw_input_symbols (dedup (filter (fun a => negb (eqb a (tpeps P))) (map (fun l => lbl l 0) labels))) = Some (tpS P) /\
  get_symbol_set A kw_stack_symbols (dedup (filter (fun a => negb (eqb a (tpeps P))) (flat_map (fun l => [lbl l 2; lbl l 3]) labels))) = Some (tpG P) /\
  tpD P = dedup (map pda_tuple_of (a_trans A)) /\ tpq0 P = hd [] (a_init A) /\ tpF P = a_final A /\
  length (dedup (a_init A)) = 1 /\ incl (used_states A) (tpQ P) /\ (forall s, In s (tpQ P) -> sre s = true).
Proof.
  intros sre A P. unfold build_pda. intros Hb.
  destruct (check_common sre (states_or_used A) A) eqn:Hc; cbn [negb] in Hb; [|discriminate].
  destruct (parse_symbol A kw_epsilon c_eps [c_underscore]) as [eps|]; [|discriminate].
  destruct (get_symbol_set A kw_input_symbols _) as [sigma|] eqn:Hg; [|discriminate].
  destruct (get_symbol_set A kw_stack_symbols _) as [gamma|] eqn:Hg2; [|discriminate].
  destruct (negb (forallb re_word sigma)); [discriminate|].
  match type of Hb with (if ?b then _ else _) = _ => destruct b; [|discriminate] end.
  inversion Hb; subst. cbn [tpQ tpS tpG tpD tpq0 tpF tpeps].
  apply check_common_true in Hc. destruct Hc as [Hu [Hs Hi]]. repeat split; assumption.
Qed.

Theorem build_tm_exact : forall sre A T, build_tm sre A = Some T ->
  get_single A kw_accept (fresh_state_tok (a_states A) kw_accept) = Some (ttqa T) /\
  get_single A kw_reject (fresh_state_tok (a_states A) kw_reject) = Some (ttqr T) /\
  ttQ T = tm_states A (ttqa T) (ttqr T) /\ parse_symbol A kw_blank c_box [c_underscore] = Some (ttblank T) /\
  (exists tape, get_symbol_set A kw_tape_symbols (tm_used_tape A) = Some tape /\
                ttG T = add (ttblank T) tape /\ ttS T = tm_sigma A (ttblank T) tape) /\
  ttD T = tm_delta_of (a_trans A) /\ ttq0 T = hd [] (a_init A) /\
  length (dedup (a_init A)) = 1 /\ incl (used_states A) (ttQ T) /\ (forall s, In s (ttQ T) -> sre s = true).
Proof.
  intros sre A T. rewrite build_tm_alt. intros Hb.
  destruct (get_single A kw_accept _) as [qa|]; [|discriminate].
  destruct (get_single A kw_reject _) as [qr|]; [|discriminate].
  destruct (check_common sre (tm_states A qa qr) A) eqn:Hc; cbn [negb] in Hb; [|discriminate].
  destruct (parse_symbol A kw_blank c_box [c_underscore]) as [blank|]; [|discriminate].
  destruct (get_symbol_set A kw_tape_symbols _) as [tape|] eqn:Hg; [|discriminate].
  cbv zeta in Hb.
  match type of Hb with (if ?b then _ else _) = _ => destruct b; [|discriminate] end.
  inversion Hb; subst. cbn [ttQ ttS ttG ttD ttq0 ttqa ttqr ttblank].
  apply check_common_true in Hc. destruct Hc as [Hu [Hs Hi]].
  repeat split; try assumption. exists tape. repeat split.
Qed.

(* parser level: the automaton record handed to the builder is exactly the one described by the text *)
Theorem parse_automaton_exact : forall sre lre kw text A,
  parse_automaton sre lre kw text = Some A ->
  a_trans A = transs kw text /\ a_items A = decls kw text /\
  a_states A = field kw_states (decls kw text) [] /\ a_init A = field kw_initial (decls kw text) [] /\
  a_final A = field kw_final (decls kw text) [] /\ NoDup (map fst (decls kw text)) /\
  (forall l, In l text -> line_ok sre lre kw l = true).
Proof.
  intros sre lre kw text A Hp. apply parse_automaton_Some in Hp. destruct Hp as [-> [Hok Hn]].
  repeat split; assumption.
Qed.

(* duplicate declarations, per parser *)
Theorem duplicate_declaration_rejected_parsers : forall t1 t2 t3 k ws1 ws2,
  let text := t1 ++ (k :: ws1) :: t2 ++ (k :: ws2) :: t3 in
  (is_decl kw_dfa (k :: ws1) = true -> forall sre, parse_dfa_with sre text = None) /\
  (is_decl kw_nfa (k :: ws1) = true -> parse_nfa text = None) /\
  (is_decl kw_pda (k :: ws1) = true -> parse_pda text = None) /\
  (is_decl kw_tm (k :: ws1) = true -> parse_tm text = None).
Proof.
  intros t1 t2 t3 k ws1 ws2 text. unfold text. repeat split.
  - intros Hd sre. rewrite parse_dfa_with_unfold, (duplicate_declaration_rejected sre re_any kw_dfa t1 t2 t3 k ws1 ws2 Hd). reflexivity.
  - intros Hd. rewrite parse_nfa_unfold, (duplicate_declaration_rejected re_word re_any kw_nfa t1 t2 t3 k ws1 ws2 Hd). reflexivity.
  - intros Hd. rewrite parse_pda_unfold, (duplicate_declaration_rejected re_word re_pda_label kw_pda t1 t2 t3 k ws1 ws2 Hd). reflexivity.
  - intros Hd. rewrite parse_tm_unfold, (duplicate_declaration_rejected re_word re_tm_label kw_tm t1 t2 t3 k ws1 ws2 Hd). reflexivity.
Qed.

(* line order, at the level of the four parsers *)
Theorem parse_dfa_line_order : forall sre text text', Permutation text text' ->
  opt_rel tdfa_equiv (parse_dfa_with sre text) (parse_dfa_with sre text').
Proof.
  intros sre text text' Hp. rewrite !parse_dfa_with_unfold.
  pose proof (line_order_irrelevant sre re_any kw_dfa text text' Hp) as He.
  destruct (parse_automaton sre re_any kw_dfa text) as [A|]; destruct (parse_automaton sre re_any kw_dfa text') as [B|];
    cbn [opt_rel] in He; try contradiction; [apply build_dfa_equiv; exact He | exact I].
Qed.

Theorem parse_nfa_line_order : forall text text', Permutation text text' ->
  opt_rel tnfa_equiv (parse_nfa text) (parse_nfa text').
Proof.
  intros text text' Hp. rewrite !parse_nfa_unfold.
  pose proof (line_order_irrelevant re_word re_any kw_nfa text text' Hp) as He.
  destruct (parse_automaton re_word re_any kw_nfa text) as [A|]; destruct (parse_automaton re_word re_any kw_nfa text') as [B|];
    cbn [opt_rel] in He; try contradiction; [apply build_nfa_equiv; exact He | exact I].
Qed.

Theorem parse_pda_line_order : forall text text', Permutation text text' ->
  opt_rel tpda_equiv (parse_pda text) (parse_pda text').
Proof.
  intros text text' Hp. rewrite !parse_pda_unfold.
  pose proof (line_order_irrelevant re_word re_pda_label kw_pda text text' Hp) as He.
  destruct (parse_automaton re_word re_pda_label kw_pda text) as [A|]; destruct (parse_automaton re_word re_pda_label kw_pda text') as [B|];
    cbn [opt_rel] in He; try contradiction; [apply build_pda_equiv; exact He | exact I].
Qed.

Theorem parse_tm_line_order : forall text text', Permutation text text' ->
  NoDup (map tm_key (transs kw_tm text)) ->
  opt_rel ttm_equiv (parse_tm text) (parse_tm text').
Proof.
  intros text text' Hp Hn. rewrite !parse_tm_unfold.
  pose proof (line_order_irrelevant re_word re_tm_label kw_tm text text' Hp) as He.
  destruct (parse_automaton re_word re_tm_label kw_tm text) as [A|] eqn:EA; destruct (parse_automaton re_word re_tm_label kw_tm text') as [B|];
    cbn [opt_rel] in He; try contradiction; [|exact I].
  apply build_tm_equiv; [exact He|]. apply parse_automaton_Some in EA. destruct EA as [-> _]. exact Hn.
Qed.

(* ------------------------------------------------------------------ *)
(* Concrete witnesses: the side conditions of the theorems are needed    *)
(* ------------------------------------------------------------------ *)
Require Coq.Strings.String.
Module ParserExamples.
  Import Coq.Strings.String.
  Local Open Scope string_scope.
  Definition idT (l : list token) := l.
  Definition idP (l : list (token * token)) := l.

  (* without unique (source, read symbol) keys the later TM line wins and the line order matters *)
  Example tm_line_order_matters :
    let l1 := [tok "p"; tok "qa"; tok "aa,L"] in
    let l2 := [tok "p"; tok "qr"; tok "aa,R"] in
    let hdr := [[tok "initial"; tok "p"]; [tok "accept"; tok "qa"]; [tok "reject"; tok "qr"]] in
    (match parse_tm (hdr ++ [l1; l2])%list, parse_tm (hdr ++ [l2; l1])%list with
     | Some T1, Some T2 => negb (Prelude.eqb (lookup (tok "p", tok "a") (ttD T1)) (lookup (tok "p", tok "a") (ttD T2)))
     | _, _ => false
     end) = true.
  Proof. vm_compute. reflexivity. Qed.

  (* parse_dfa passes dfa_keywords() (fix F18): a DFA with a (source) state named like a keyword of another format
     (blank, accept, ...) survives print / parse_dfa, exactly as the same automaton does as an NFA; a source state
     named like a keyword of the DFA format itself (input_symbols, states, ...) still breaks the round trip *)
  Example dfa_other_keyword_state_ok :
    let D := mkTDFA [tok "blank"] [tok "a"] [((tok "blank", tok "a"), tok "blank")] (tok "blank") [] in
    tdfa_wf_b D = true /\ parse_dfa (print_dfa idT idP D) = Some D.
  Proof. vm_compute. split; reflexivity. Qed.
  Example dfa_accept_state_ok :
    let D := mkTDFA [tok "accept"; tok "reject"] [tok "a"]
               [((tok "accept", tok "a"), tok "reject"); ((tok "reject", tok "a"), tok "accept")] (tok "accept") [tok "accept"] in
    tdfa_wf_b D = true /\ parse_dfa (print_dfa idT idP D) = Some D.
  Proof. vm_compute. split; reflexivity. Qed.
  Example dfa_keyword_state_rejected :
    let D := mkTDFA [tok "input_symbols"] [tok "a"] [((tok "input_symbols", tok "a"), tok "input_symbols")] (tok "input_symbols") [] in
    tdfa_wf_b D = true /\ parse_dfa (print_dfa idT idP D) = None.
  Proof. vm_compute. split; reflexivity. Qed.
  Example dfa_states_state_rejected :
    let D := mkTDFA [tok "states"] [tok "a"] [((tok "states", tok "a"), tok "states")] (tok "states") [] in
    tdfa_wf_b D = true /\ parse_dfa (print_dfa idT idP D) = None.
  Proof. vm_compute. split; reflexivity. Qed.
  (* the hypothesis is_trans kw_all of incomplete_transition_rejected_all cannot be weakened to kw_dfa:
     a two-word line starting with a keyword of another format is a declaration there *)
  Example incomplete_transition_other_keyword_not_rejected_all :
    let text := [[tok "initial"; tok "p"]; [tok "stack_symbols"; tok "X"]] in
    is_trans kw_dfa [tok "stack_symbols"; tok "X"] = true /\ parse_dfa text = None /\ parse_nfa text = None /\
    parse_pda text <> None.
  Proof. vm_compute. repeat split; try reflexivity. discriminate. Qed.
  Example nfa_other_keyword_state_ok :
    let N := mkTNFA [tok "blank"] [tok "a"] [((tok "blank", tok "a"), [tok "blank"])] (tok "blank") [] (tok "_") in
    tnfa_wf_b N = true /\ parse_nfa (print_nfa idT idP N) = Some N.
  Proof. vm_compute. split; reflexivity. Qed.
  Example nfa_keyword_state_rejected :
    let N := mkTNFA [tok "epsilon"] [tok "a"] [((tok "epsilon", tok "a"), [tok "epsilon"])] (tok "epsilon") [] (tok "_") in
    tnfa_wf_b N = true /\ parse_nfa (print_nfa idT idP N) = None.
  Proof. vm_compute. split; reflexivity. Qed.
  (* a TM with the default halting state names accept / reject (targets only) round-trips *)
  Example tm_default_halting_names_ok :
    let T := mkTTM [tok "p"; tok "accept"; tok "reject"] [tok "a"] [tok "a"; tok "_"]
               [((tok "p", tok "a"), (tok "accept", tok "a", true)); ((tok "p", tok "_"), (tok "reject", tok "a", false))]
               (tok "p") (tok "accept") (tok "reject") (tok "_") in
    ttm_wf_b T = true /\ parse_tm (print_tm idT idP T) = Some T.
  Proof. vm_compute. split; reflexivity. Qed.
  (* an NFA entry with an empty target set prints nothing: the key disappears (tn_step is unchanged) *)
  Example nfa_empty_target_key_vanishes :
    let N := mkTNFA [tok "p"] [tok "a"] [((tok "p", tok "a"), [])] (tok "p") [] (tok "_") in
    tnfa_wf_b N = true /\ option_map tnD (parse_nfa (print_nfa idT idP N)) = Some [].
  Proof. vm_compute. split; reflexivity. Qed.
  (* a repeated name in the accepting set is rejected by the parser *)
  Example dfa_duplicate_final_rejected :
    let D := mkTDFA [tok "p"] [] [] (tok "p") [tok "p"; tok "p"] in
    tdfa_wf_b D = true /\ parse_dfa (print_dfa idT idP D) = None.
  Proof. vm_compute. split; reflexivity. Qed.
  (* an association list with a repeated key is not a dict: the printed TM re-parses to the later entry *)
  Example tm_duplicate_key_differs :
    let T := mkTTM [tok "p"; tok "qa"; tok "qr"] [tok "a"] [tok "a"; tok "_"]
               [((tok "p", tok "a"), (tok "qa", tok "a", true)); ((tok "p", tok "a"), (tok "qr", tok "a", false))]
               (tok "p") (tok "qa") (tok "qr") (tok "_") in
    ttm_wf_b T = true /\
    option_map (fun T' => lookup (tok "p", tok "a") (ttD T')) (parse_tm (print_tm idT idP T)) = Some (Some (tok "qr", tok "a", false)) /\
    lookup (tok "p", tok "a") (ttD T) = Some (tok "qa", tok "a", true).
  Proof. vm_compute. repeat split; reflexivity. Qed.
  (* a PDA with a two-character stack symbol cannot be printed in the label format a,uv *)
  Example pda_long_stack_symbol_rejected :
    let P := mkTPDA [tok "p"] [tok "a"] [tok "XY"] [(tok "p", tok "a", tok "XY", tok "p", tok "_")] (tok "p") [] (tok "_") in
    tpda_wf_b P = true /\ parse_pda (print_pda idT idP P) = None.
  Proof. vm_compute. split; reflexivity. Qed.
  (* DFA / NFA symbols may be longer words *)
  Example dfa_long_symbol_ok :
    let D := mkTDFA [tok "p"] [tok "ab"] [((tok "p", tok "ab"), tok "p")] (tok "p") [] in
    parse_dfa (print_dfa idT idP D) = Some D.
  Proof. vm_compute. reflexivity. Qed.
End ParserExamples.
