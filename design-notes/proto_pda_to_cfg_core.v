(* Design note (calibration sketch, no axioms): the core of Sipser's Lemma 2.27 for the PDA -> CFG
   construction (C10), for a PDA whose moves are pushes and pops only.
   A p q x  is the language of the variable A_pq of the generated grammar, given directly by the
   three rule shapes  A_pp -> eps | A_pq -> A_pr A_rq | A_pq -> a A_rs b  (push a/u at p->r, pop b/u at s->q).
   bal p x q  is "the PDA goes from (p, empty stack) to (q, empty stack) reading x".
   Theorem: A p q x <-> bal p x q.   The stack top is the head of the list in this sketch. *)
From Coq Require Import List Arith Lia.
Import ListNotations.

Section Sipser.
  Variable St Sym Gm : Type.
  Definition word := list Sym.
  Definition opt (a : option Sym) : word := match a with Some c => [c] | None => [] end.
  Variable push : St -> option Sym -> St -> Gm -> Prop.     (* p --a, eps -> u--> q *)
  Variable pop  : St -> option Sym -> Gm -> St -> Prop.     (* p --a, u -> eps--> q *)

  Definition conf := (St * list Gm)%type.
  Inductive step : conf -> option Sym -> conf -> Prop :=
  | s_push p a q u st : push p a q u -> step (p, st) a (q, u :: st)
  | s_pop p a u q st : pop p a u q -> step (p, u :: st) a (q, st).

  Inductive run : nat -> conf -> word -> conf -> Prop :=
  | run_0 c : run 0 c [] c
  | run_S n c a c1 x c2 : step c a c1 -> run n c1 x c2 -> run (S n) c (opt a ++ x) c2.

  Definition bal (p : St) (x : word) (q : St) : Prop := exists n, run n (p, []) x (q, []).

  Inductive A : St -> St -> word -> Prop :=
  | A_eps p : A p p []
  | A_cat p r q x y : A p r x -> A r q y -> A p q (x ++ y)
  | A_wrap p r s q a b u x : push p a r u -> pop s b u q -> A r s x -> A p q (opt a ++ x ++ opt b).

  Lemma run_app n1 c1 x c2 : run n1 c1 x c2 -> forall n2 y c3, run n2 c2 y c3 -> run (n1 + n2) c1 (x ++ y) c3.
  Proof.
    induction 1 as [c|n c a c1 x c2 Hs _ IH]; intros n2 y c3 H2; cbn; auto.
    rewrite <- app_assoc. eapply run_S; eauto.
  Qed.

  (* frame: a computation can be replayed above any base stack *)
  Lemma step_frame c a c' t : step c a c' -> step (fst c, snd c ++ t) a (fst c', snd c' ++ t).
  Proof. destruct 1; cbn; constructor; auto. Qed.
  Lemma run_frame n c x c' t : run n c x c' -> run n (fst c, snd c ++ t) x (fst c', snd c' ++ t).
  Proof.
    induction 1 as [c|n c a c1 x c2 Hs _ IH].
    - constructor.
    - eapply run_S; [apply step_frame; eauto | exact IH].
  Qed.

  Theorem A_bal p q x : A p q x -> bal p x q.
  Proof.
    induction 1 as [p|p r q x y _ [n1 H1] _ [n2 H2]|p r s q a b u x Hpush Hpop _ [n H]].
    - exists 0. constructor.
    - exists (n1 + n2). eapply run_app; eauto.
    - exists (S (n + 1)). eapply run_S; [apply s_push; eauto|].
      apply (run_frame _ _ _ _ [u]) in H. cbn in H.
      eapply run_app; [exact H|].
      replace (opt b) with (opt b ++ []) by apply app_nil_r.
      eapply run_S; [apply s_pop; eauto | constructor].
  Qed.

  (* first return to the base: a computation that starts above a bottom symbol u and ends with the empty
     stack splits into: a computation that empties the part above u (never touching u), the pop of u,
     and the rest *)
  Lemma step_inv c a c' : step c a c' ->
      (exists q u, push (fst c) a q u /\ c' = (q, u :: snd c)) \/
      (exists u q st, pop (fst c) a u q /\ snd c = u :: st /\ c' = (q, st)).
  Proof. destruct 1; cbn; [left|right]; eauto 6. Qed.

  Lemma first_return n : forall p s u x q, run n (p, s ++ [u]) x (q, []) ->
      exists n1 n2 x1 b x2 s' q', n = n1 + 1 + n2 /\ x = x1 ++ opt b ++ x2 /\
        run n1 (p, s) x1 (s', []) /\ pop s' b u q' /\ run n2 (q', []) x2 (q, []).
  Proof.
    induction n as [|n IH]; intros p s u x q H.
    - inversion H; subst. destruct s; discriminate.
    - inversion H as [|n' c a c1 x' c2 Hs Hr]; subst.
      apply step_inv in Hs. cbn in Hs.
      destruct Hs as [(q0 & v & Hpush & ->)|(v & q0 & st & Hpop & Hst & ->)].
      + (* push v *)
        change (v :: s ++ [u]) with ((v :: s) ++ [u]) in Hr.
        destruct (IH _ _ _ _ _ Hr) as (n1 & n2 & x1 & b & x2 & s' & q' & -> & -> & H1 & Hp & H2).
        exists (S n1), n2, (opt a ++ x1), b, x2, s', q'. repeat split; auto.
        * now rewrite <- app_assoc.
        * eapply run_S; [apply s_push; eauto | exact H1].
      + (* pop v *)
        destruct s as [|v0 s0]; cbn in Hst; inversion Hst; subst.
        * (* the popped symbol is u itself *)
          exists 0, n, [], a, x', p, q0. repeat split; auto. constructor.
        * destruct (IH _ _ _ _ _ Hr) as (n1 & n2 & x1 & b & x2 & s' & q' & -> & -> & H1 & Hp & H2).
          exists (S n1), n2, (opt a ++ x1), b, x2, s', q'. repeat split; auto.
          -- now rewrite <- app_assoc.
          -- eapply run_S; [apply s_pop; eauto | exact H1].
  Qed.

  Theorem bal_A : forall n p x q, run n (p, []) x (q, []) -> A p q x.
  Proof.
    induction n as [n IH] using lt_wf_ind. intros p x q H.
    destruct n as [|n].
    - inversion H; subst. constructor.
    - inversion H as [|n' c a c1 x' c2 Hs Hr]; subst.
      apply step_inv in Hs. cbn in Hs.
      destruct Hs as [(r & u & Hpush & ->)|(v & q0 & st & _ & Hst & _)]; [|discriminate].
      change [u] with ([] ++ [u]) in Hr.
      destruct (first_return _ _ _ _ _ _ Hr) as (n1 & n2 & x1 & b & x2 & s' & q' & -> & -> & H1 & Hp & H2).
      assert (A1 : A r s' x1) by (apply (IH n1); [lia|exact H1]).
      assert (A2 : A q' q x2) by (apply (IH n2); [lia|exact H2]).
      replace (opt a ++ x1 ++ opt b ++ x2) with ((opt a ++ x1 ++ opt b) ++ x2) by now rewrite <- !app_assoc.
      eapply A_cat; [|exact A2]. eapply A_wrap; eauto.
  Qed.

  Theorem sipser_2_27 p q x : A p q x <-> bal p x q.
  Proof. split; [apply A_bal | intros [n H]; eapply bal_A; eauto]. Qed.
End Sipser.
