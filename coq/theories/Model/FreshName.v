(* Model of the two fresh-name generators of gambatools that the other models treat as parameters / streams:
     cfg_algorithms.cfg_fresh_variable(G, hint)   (used by the Chomsky phases 1, 4, 5)
     dfa_algorithms.fresh_state(Q, hint)          (used by dfa/pda/regexp algorithms)
   Names are tokens (Model/Tokens.v: lists of character codes; upper-case letters 'A'..'Z' = 165..190,
   '{}{}'.format(hint, index) = hint ++ digits index).  A Python set is a list used as a set; len(V) of a set is
   `length (dedup V)`.  `while` loops carry fuel and return None when it is exhausted (proved impossible in
   Proofs/FreshNameProofs.v).  Definitions only. *)
From GT Require Import Base.Prelude Model.Tokens.

(* cfg_fresh_variable, branch len(V) >= 26:
     index = 0; A = hint
     while A in V: A = '{}{}'.format(hint, index); index = index + 1
     return A
   one unit of fuel per evaluation of the loop test *)
Fixpoint fresh_variable_loop (fuel : nat) (V : list token) (hint A : token) (index : nat) : option token :=
  match fuel with
  | 0 => None
  | S f => if mem A V then fresh_variable_loop f V hint (hint ++ digits index) (S index) else Some A
  end.

(* string.ascii_uppercase, one-character names *)
Definition upper_letters : list nat := seq 165 26.

(* cfg_fresh_variable, branch len(V) < 26:
     if hint not in V: return hint
     for A in string.ascii_uppercase: if A not in V: return A
     (falls off the end: implicit None) *)
Definition fresh_variable_small (V : list token) (hint : token) : option token :=
  if negb (mem hint V) then Some hint
  else option_map (fun c => [c]) (find (fun c => negb (mem [c] V)) upper_letters).

Definition fresh_variable (V : list token) (hint : token) : option token :=
  if Nat.leb 26 (length (dedup V)) then fresh_variable_loop (S (length V)) V hint hint 0
  else fresh_variable_small V hint.

(* dfa_algorithms.fresh_state:
     index = 1
     while True: q = '{}{}'.format(hint, index); if q not in Q: return q; index = index + 1 *)
Fixpoint fresh_state_loop (fuel : nat) (Q : list token) (hint : token) (index : nat) : option token :=
  match fuel with
  | 0 => None
  | S f => let q := hint ++ digits index in if mem q Q then fresh_state_loop f Q hint (S index) else Some q
  end.

Definition fresh_state (Q : list token) (hint : token) : option token :=
  fresh_state_loop (S (length Q)) Q hint 1.
