(* C20 — The DFA isomorphism test decides isomorphism of the reachable parts.
   Specification `iso_reach` (Model/Iso.v): a relation between states that contains the pair of initial states, relates
   only reachable states, is preserved by every transition, preserves acceptance and is a partial bijection. *)
From GT Require Import Base.Prelude Model.DFA Model.NFA Model.Iso Proofs.IsoProofs.

Theorem C20_iso_matrix_decides : forall (D1 D2 : dfa nat) (pick : picker (nat * nat)),
  dfa_wf D1 -> dfa_wf D2 -> seteq (dS D1) (dS D2) -> picker_ok pick ->
  exists b, iso_matrix pick D1 D2 = Some b /\ (b = true <-> iso_reach D1 D2).
Proof. exact (fun D1 D2 pick => iso_matrix_correct D1 D2 pick). Qed.

Theorem C20_iso1_decides : forall (D1 D2 : dfa nat) (pick : picker (nat * nat)),
  dfa_wf D1 -> dfa_wf D2 -> seteq (dS D1) (dS D2) -> picker_ok pick ->
  exists b, iso1 pick D1 D2 = Some b /\ (b = true <-> iso_reach D1 D2).
Proof. exact (fun D1 D2 pick => iso1_correct D1 D2 pick). Qed.

Theorem C20_iso_symmetric : forall (D1 D2 : dfa nat), seteq (dS D1) (dS D2) -> iso_reach D1 D2 -> iso_reach D2 D1.
Proof. exact (fun D1 D2 => iso_reach_sym D1 D2). Qed.

Theorem C20_iso_implies_equivalent : forall (D1 D2 : dfa nat), dfa_wf D1 -> dfa_wf D2 -> seteq (dS D1) (dS D2) -> iso_reach D1 D2 ->
  forall w, Forall (fun a => In a (dS D1)) w -> (dfa_lang D1 w <-> dfa_lang D2 w).
Proof. exact (fun D1 D2 => iso_reach_lang D1 D2). Qed.

Print Assumptions C20_iso_matrix_decides.
Print Assumptions C20_iso1_decides.
Print Assumptions C20_iso_symmetric.
Print Assumptions C20_iso_implies_equivalent.
