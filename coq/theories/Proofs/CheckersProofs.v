(* C12 / C13: soundness of the object-level exercise checkers of Model/Checkers.v ("OK only when the answer satisfies
   the criterion of the exercise; a reported counterexample word is genuine, of the right polarity and of minimal
   length") and acceptance of the library's own answers by these checkers. *)
From GT Require Import Base.Prelude Base.Sort Model.DFA Model.NFA Model.DFAOps Model.Minimize Model.Lang Model.Regexp
  Model.CFG Model.Chomsky Model.CYK Model.Simulate Model.Checkers Decide.DFAEquiv.
From GT Require Import Proofs.EnumProofs Proofs.RegexpProofs Proofs.LangProofs Proofs.DFAOpsProofs Proofs.NFAProofs
  Proofs.SubsetProofs Proofs.PartitionDefs Proofs.MinimizeFinal Proofs.CYKProofs Proofs.CFGEnumProofs Proofs.ChomskyFinal
  Proofs.SimulateProofs Proofs.CFGBasics.
From Coq Require Import Permutation.
Set Implicit Arguments.

(* ================================================================= compare_languages *)
Lemma shortest_None (L : list word) : shortest L = None <-> L = [].
Proof.
  destruct L as [|w L]; cbn [shortest]; [tauto|].
  split; [|discriminate].
  destruct (shortest L) as [v|]; [destruct (Nat.leb (length w) (length v))|]; discriminate.
Qed.

Lemma shortest_Some (L : list word) : forall w, shortest L = Some w ->
  In w L /\ forall v, In v L -> length w <= length v.
Proof.
  induction L as [|u L IH]; intros w Hs; cbn [shortest] in Hs; [discriminate|].
  destruct (shortest L) as [v0|] eqn:E.
  - destruct (IH v0 eq_refl) as [Hin Hmin].
    destruct (Nat.leb (length u) (length v0)) eqn:El; inversion Hs; subst w.
    + apply Nat.leb_le in El. split; [left; reflexivity|].
      intros v [<-|Hv]; [lia|]. specialize (Hmin v Hv). lia.
    + apply Nat.leb_gt in El. split; [right; exact Hin|].
      intros v [<-|Hv]; [lia|]. apply Hmin; exact Hv.
  - apply shortest_None in E. subst L. inversion Hs; subst w. split; [left; reflexivity|].
    intros v [<-|[]]. lia.
Qed.

Lemma diff_nil_incl (A1 A2 : list word) : diff A1 A2 = [] <-> incl A1 A2.
Proof.
  split.
  - intros E w Hw. destruct (mem w A2) eqn:Em; [apply mem_In; exact Em|].
    apply mem_nIn in Em. assert (Hd : In w (diff A1 A2)) by (apply diff_In; auto). rewrite E in Hd. destruct Hd.
  - intros Hi. destruct (diff A1 A2) as [|w r] eqn:E; [reflexivity|].
    assert (Hd : In w (diff A1 A2)) by (rewrite E; left; reflexivity).
    apply diff_In in Hd. destruct Hd as [H1 H2]. exfalso. apply H2, Hi, H1.
Qed.

Theorem compare_languages_none (A1 A2 : list word) : compare_languages A1 A2 = None <-> seteq A1 A2.
Proof.
  unfold compare_languages. split.
  - intros Hc. destruct (shortest (diff A1 A2)) as [w|] eqn:E1; [discriminate|].
    destruct (shortest (diff A2 A1)) as [w|] eqn:E2; [discriminate|].
    apply shortest_None, diff_nil_incl in E1. apply shortest_None, diff_nil_incl in E2.
    intros w. split; [apply E1 | apply E2].
  - intros Hs.
    assert (E1 : diff A1 A2 = []) by (apply diff_nil_incl; intros w Hw; apply Hs; exact Hw).
    assert (E2 : diff A2 A1 = []) by (apply diff_nil_incl; intros w Hw; apply Hs; exact Hw).
    rewrite E1, E2. reflexivity.
Qed.

Theorem compare_languages_extra (A1 A2 : list word) (w : word) : compare_languages A1 A2 = Some (true, w) ->
  In w A1 /\ ~ In w A2 /\ forall v, In v A1 -> ~ In v A2 -> length w <= length v.
Proof.
  unfold compare_languages. intros Hc.
  destruct (shortest (diff A1 A2)) as [w1|] eqn:E1.
  - inversion Hc; subst w1. apply shortest_Some in E1. destruct E1 as [Hin Hmin].
    apply diff_In in Hin. destruct Hin as [Hi1 Hi2]. split; [exact Hi1|]. split; [exact Hi2|].
    intros v Hv1 Hv2. apply Hmin. apply diff_In. auto.
  - destruct (shortest (diff A2 A1)); discriminate.
Qed.

Theorem compare_languages_missing (A1 A2 : list word) (w : word) : compare_languages A1 A2 = Some (false, w) ->
  (forall v, In v A1 -> In v A2) /\ In w A2 /\ ~ In w A1 /\ forall v, In v A2 -> ~ In v A1 -> length w <= length v.
Proof.
  unfold compare_languages. intros Hc.
  destruct (shortest (diff A1 A2)) as [w1|] eqn:E1; [discriminate|].
  apply shortest_None, diff_nil_incl in E1. split; [exact E1|].
  destruct (shortest (diff A2 A1)) as [w2|] eqn:E2; [|discriminate].
  inversion Hc; subst w2. apply shortest_Some in E2. destruct E2 as [Hin Hmin].
  apply diff_In in Hin. destruct Hin as [Hi1 Hi2]. split; [exact Hi1|]. split; [exact Hi2|].
  intros v Hv1 Hv2. apply Hmin. apply diff_In. auto.
Qed.

(* every verdict of compare_languages is one of the three above; Some _ is reported exactly when the sets differ *)
Theorem compare_languages_some (A1 A2 : list word) : (exists b w, compare_languages A1 A2 = Some (b, w)) <-> ~ seteq A1 A2.
Proof.
  rewrite <- compare_languages_none. destruct (compare_languages A1 A2) as [[b w]|].
  - split; [intros _; discriminate | intros _; exists b, w; reflexivity].
  - split; [intros (b & w & E); discriminate | intros Hn; exfalso; apply Hn; reflexivity].
Qed.

Lemma lang_ok_spec (A1 A2 : list word) : lang_ok A1 A2 = true <-> seteq A1 A2.
Proof.
  unfold lang_ok. rewrite <- compare_languages_none.
  destruct (compare_languages A1 A2); split; try reflexivity; discriminate.
Qed.

Lemma seteq_refl {X} `{Eqb X} (l : list X) : seteq l l.
Proof. intros x; reflexivity. Qed.

Lemma seteqb_refl {X} `{Eqb X} (l : list X) : seteqb l l = true.
Proof. apply seteqb_seteq. apply seteq_refl. Qed.

Lemma subsetb_refl {X} `{Eqb X} (l : list X) : subsetb l l = true.
Proof. apply subsetb_incl. apply incl_refl. Qed.

Lemma lang_ok_refl (L : list word) : lang_ok L L = true.
Proof. apply lang_ok_spec. apply seteq_refl. Qed.

(* ================================================================= check_max_states / check_language_from_words *)
Lemma check_max_states_spec (nstates max_states : nat) :
  check_max_states nstates max_states = true <-> max_states = 0 \/ nstates <= max_states.
Proof.
  unfold check_max_states. rewrite negb_true_iff, andb_false_iff, !Nat.ltb_ge. lia.
Qed.

Theorem check_language_from_words_spec (L : list word) (nstates max_states : nat) (words : list word) :
  check_language_from_words L nstates max_states words = true <->
  (max_states = 0 \/ nstates <= max_states) /\ seteq L words.
Proof.
  unfold check_language_from_words. rewrite andb_true_iff, check_max_states_spec, lang_ok_spec. reflexivity.
Qed.

Theorem check_language_from_words_dfa_sound {A} `{Eqb A} (D : dfa A) (n max_states : nat) (L words : list word) :
  dfa_wf D -> dfa_words D n = Some L ->
  check_language_from_words L (length (dedup (dQ D))) max_states words = true ->
  (max_states = 0 \/ length (dedup (dQ D)) <= max_states) /\
  forall w, In w words <-> length w <= n /\ Forall (fun a => In a (dS D)) w /\ dfa_lang D w.
Proof.
  intros Hwf HL Hc. apply check_language_from_words_spec in Hc. destruct Hc as [Hm Hs]. split; [exact Hm|].
  destruct (dfa_words_lang D n Hwf) as (L' & HL' & Hspec). rewrite HL in HL'. inversion HL'; subst L'.
  intros w. rewrite <- (Hs w). apply Hspec.
Qed.

Theorem check_language_from_words_nfa_sound {A} `{Eqb A} (N : nfa A) (n max_states : nat) (L words : list word) :
  nfa_wf N -> nfa_words N n = Some L ->
  check_language_from_words L (length (dedup (nQ N))) max_states words = true ->
  (max_states = 0 \/ length (dedup (nQ N)) <= max_states) /\
  forall w, In w words <-> length w <= n /\ Forall (fun a => In a (nS N)) w /\ nfa_lang N w.
Proof.
  intros Hwf HL Hc. apply check_language_from_words_spec in Hc. destruct Hc as [Hm Hs]. split; [exact Hm|].
  destruct (nfa_words_lang N n Hwf) as (L' & HL' & Hspec). rewrite HL in HL'. inversion HL'; subst L'.
  intros w. rewrite <- (Hs w). apply Hspec.
Qed.

Theorem check_language_from_words_re_sound (r : re) (n : nat) (words : list word) :
  check_language_from_words (re_words r n) 0 0 words = true ->
  forall w, In w words <-> length w <= n /\ re_lang r w.
Proof.
  intros Hc. apply check_language_from_words_spec in Hc. destruct Hc as [_ Hs].
  intros w. rewrite <- (Hs w). apply re_words_exact.
Qed.

(* check_dfa2regexp: the regular expression against the DFA, both enumerated up to n *)
Theorem check_dfa2regexp_sound {A} `{Eqb A} (D : dfa A) (r : re) (n : nat) (L : list word) :
  dfa_wf D -> dfa_words D n = Some L -> lang_ok (re_words r n) L = true ->
  forall w, length w <= n -> (re_lang r w <-> Forall (fun a => In a (dS D)) w /\ dfa_lang D w).
Proof.
  intros Hwf HL Hc w Hl. apply lang_ok_spec in Hc.
  destruct (dfa_words_lang D n Hwf) as (L' & HL' & Hspec). rewrite HL in HL'. inversion HL'; subst L'.
  specialize (Hc w). rewrite re_words_exact, Hspec in Hc. tauto.
Qed.

(* ================================================================= check_accepts_rejects *)
Theorem check_accepts_rejects_sound (va vr : list bool) :
  check_accepts_rejects va vr = true <-> Forall (fun b => b = true) va /\ Forall (fun b => b = false) vr.
Proof.
  unfold check_accepts_rejects. rewrite andb_true_iff, !forallb_forall, !Forall_forall.
  split; intros [Ha Hr]; (split; [exact Ha|]); intros b Hb; [apply negb_true_iff | apply negb_true_iff]; apply Hr; exact Hb.
Qed.

(* ================================================================= generic helpers *)
Lemma dfa_path_ext {A} `{Eqb A} (D1 D2 : dfa A) : (forall q a, ddelta D2 q a = ddelta D1 q a) ->
  forall q w p, dfa_path D1 q w p -> dfa_path D2 q w p.
Proof.
  intros He q w p Hp. induction Hp as [q|q a q1 w q2 Hd Hp IH]; [constructor|].
  apply dp_cons with q1; [rewrite He; exact Hd | exact IH].
Qed.

Lemma Forall_seteq (l1 l2 : list nat) (w : word) : seteq l1 l2 ->
  Forall (fun a => In a l1) w -> Forall (fun a => In a l2) w.
Proof. intros Hs Hf. rewrite Forall_forall in *. intros a Ha. apply Hs, Hf, Ha. Qed.

Lemma forallb_combine_seq {X} (f : nat * X -> bool) (d : X) (l : list X) : forall s,
  forallb f (combine (seq s (length l)) l) = true <-> forall i, i < length l -> f (s + i, nth i l d) = true.
Proof.
  induction l as [|x l IH]; intros s; cbn [length seq combine forallb].
  - split; [intros _ i Hi; lia | reflexivity].
  - rewrite andb_true_iff, IH. split.
    + intros [Hx Hl] [|i] Hi; cbn [nth]; [rewrite Nat.add_0_r; exact Hx|].
      replace (s + S i) with (S s + i) by lia. apply Hl. lia.
    + intros Hall. split.
      * specialize (Hall 0 ltac:(lia)). cbn [nth] in Hall. rewrite Nat.add_0_r in Hall. exact Hall.
      * intros i Hi. specialize (Hall (S i) ltac:(lia)). cbn [nth] in Hall.
        replace (S s + i) with (s + S i) by lia. exact Hall.
Qed.

Lemma NoDup_dedup {X} `{Eqb X} (l : list X) : NoDup l -> dedup l = l.
Proof.
  induction l as [|x l IH]; intros Hnd; cbn [dedup]; [reflexivity|].
  inversion Hnd as [|y ys Hnin Hnd']; subst.
  apply mem_nIn in Hnin. rewrite Hnin, (IH Hnd'). reflexivity.
Qed.

(* ================================================================= complement *)
Section SingleP.
  Context {A : Type} `{Eqb A}.

  Lemma delta_eqb_sound (D1 D2 : dfa A) : delta_eqb D1 D2 = true -> forall q a, ddelta D2 q a = ddelta D1 q a.
  Proof.
    unfold delta_eqb. rewrite andb_true_iff, !forallb_forall. intros [H1 H2] q a.
    destruct (ddelta D1 q a) as [x|] eqn:E1.
    - apply lookup_In in E1. specialize (H1 _ E1). cbn [fst snd] in H1. apply eqb_true in H1. exact H1.
    - destruct (ddelta D2 q a) as [y|] eqn:E2; [|reflexivity].
      apply lookup_In in E2. specialize (H2 _ E2). cbn [fst snd] in H2. apply eqb_true in H2. congruence.
  Qed.

  Lemma delta_eqb_refl (D : dfa A) : NoDup (map fst (dD D)) -> delta_eqb D D = true.
  Proof.
    intros Hnd. unfold delta_eqb.
    assert (E : forallb (fun e => eqb (ddelta D (fst (fst e)) (snd (fst e))) (Some (snd e))) (dD D) = true).
    { apply forallb_forall. intros [[q a] q1] He. cbn [fst snd]. unfold ddelta.
      rewrite (lookup_NoDup _ _ _ Hnd He). apply eqb_refl. }
    rewrite E. reflexivity.
  Qed.

  Theorem check_dfa_complement_sound (D1 answer : dfa A) : check_dfa_complement D1 answer = true ->
    seteq (dS D1) (dS answer) /\ seteq (dQ D1) (dQ answer) /\ dq0 D1 = dq0 answer /\
    (forall q a, ddelta answer q a = ddelta D1 q a) /\
    (forall q, In q (dF answer) <-> In q (dQ D1) /\ ~ In q (dF D1)).
  Proof.
    unfold check_dfa_complement. cbn [dfa_complement dS dQ dq0 dF].
    rewrite !andb_true_iff. intros [[[[[HS HQ] Hq0] Hd] HF1] HF2].
    apply seteqb_seteq in HS. apply seteqb_seteq in HQ. apply eqb_true in Hq0.
    apply subsetb_incl in HF1. apply subsetb_incl in HF2.
    split; [exact HS|]. split; [exact HQ|]. split; [exact Hq0|]. split.
    - intros q a. apply (delta_eqb_sound _ _ Hd q a).
    - intros q. rewrite <- diff_In. split; [apply HF2 | apply HF1].
  Qed.

  (* consequence for the language: the accepted answer recognises the complement *)
  Theorem check_dfa_complement_lang (D1 answer : dfa A) : dfa_wf D1 -> check_dfa_complement D1 answer = true ->
    forall w, Forall (fun a => In a (dS D1)) w -> (dfa_lang answer w <-> ~ dfa_lang D1 w).
  Proof.
    intros Hwf Hc w Hw. destruct (check_dfa_complement_sound _ _ Hc) as (_ & _ & Hq0 & Hd & HF).
    destruct (@complement_correct _ _ D1 Hwf) as (_ & _ & HL). rewrite <- (HL w Hw).
    unfold dfa_lang. cbn [dfa_complement dq0 dF]. rewrite <- Hq0.
    split; intros (qf & Hp & Hf); exists qf; split.
    - apply (@dfa_path_ext _ _ answer (dfa_complement D1)); [intros q a; cbn [dfa_complement ddelta dD]; symmetry; apply Hd | exact Hp].
    - apply diff_In. apply HF. exact Hf.
    - apply (@dfa_path_ext _ _ (dfa_complement D1) answer); [intros q a; apply Hd | exact Hp].
    - apply HF. apply diff_In. exact Hf.
  Qed.

  Theorem own_complement_accepted (D1 : dfa A) : NoDup (map fst (dD D1)) ->
    check_dfa_complement D1 (dfa_complement D1) = true.
  Proof.
    intros Hnd. unfold check_dfa_complement. rewrite !seteqb_refl, eqb_refl, !subsetb_refl.
    rewrite (delta_eqb_refl (dfa_complement D1) Hnd). reflexivity.
  Qed.
End SingleP.

(* the side condition of own_complement_accepted is needed: a transition list with a repeated key (which the Python
   dict cannot represent) is rejected by the model checker *)
Lemma own_complement_needs_unique_keys : dfa_wf D_dupkey /\ check_dfa_complement D_dupkey (dfa_complement D_dupkey) = false.
Proof. split; [exact D_dupkey_wf | vm_compute; reflexivity]. Qed.
