(* C05 — Regexp matching and simplification follow the denotational semantics.
   Only statements, each closed by `exact`; proofs live in Proofs/RegexpProofs.v. *)
From GT Require Import Base.Prelude Model.Regexp Proofs.RegexpProofs.

(* the matcher (model of regexp_accepts_word) accepts exactly the denoted language: all trees, all words *)
Theorem C05_matcher_exact : forall (r : re) (w : word), acc r w = true <-> re_lang r w.
Proof. exact acc_correct. Qed.

(* simplification preserves the language *)
Theorem C05_simplify_lang : forall (r : re) (w : word), re_lang (simplify r) w <-> re_lang r w.
Proof. exact simplify_lang. Qed.

(* ... and is never larger, in node count and in the library's own regexp_size measure *)
Theorem C05_simplify_not_larger : forall r : re,
  nodes (simplify r) <= nodes r /\ regexp_size (simplify r) <= regexp_size r.
Proof. exact (fun r => conj (simplify_nodes r) (simplify_regexp_size r)). Qed.

Print Assumptions C05_matcher_exact.
Print Assumptions C05_simplify_lang.
Print Assumptions C05_simplify_not_larger.
