(* Model of gambatools.regexp / regexp_algorithms: regexp_accepts_word, regexp_simplify, regexp_size,
   regexp_words_up_to_n, concatenate.  Executable Gallina, no proofs.  Symbols are single
   characters (nat codes); words are lists of codes. *)
From GT Require Import Base.Prelude.

Inductive re := Zero | One | Sym (a : nat) | Sum (r s : re) | Cat (r s : re) | Star (r : re).

(* specification: denotational semantics *)
Inductive re_lang : re -> word -> Prop :=
| LOne : re_lang One []
| LSym a : re_lang (Sym a) [a]
| LSumL r s w : re_lang r w -> re_lang (Sum r s) w
| LSumR r s w : re_lang s w -> re_lang (Sum r s) w
| LCat r s u v : re_lang r u -> re_lang s v -> re_lang (Cat r s) (u ++ v)
| LStar0 r : re_lang (Star r) []
| LStarS r u v : re_lang r u -> re_lang (Star r) v -> re_lang (Star r) (u ++ v).

(* regexp_accepts_word.  Iteration: len(w)==0 -> True, else any k in 1..len(w) with
   operand accepting w[:k] and the iteration accepting w[k:]; the recursive call on the same
   expression with a strictly shorter word is the inner fixpoint on a length budget. *)
Fixpoint star_acc (f : word -> bool) (n : nat) (w : word) {struct n} : bool :=
  match w with
  | [] => true
  | _ :: _ =>
    match n with
    | 0 => false
    | S n' => existsb (fun k => f (firstn k w) && star_acc f n' (skipn k w)) (seq 1 (length w))
    end
  end.

Fixpoint acc (r : re) (w : word) {struct r} : bool :=
  match r with
  | Zero => false
  | One => match w with [] => true | _ => false end
  | Sym a => match w with [b] => Nat.eqb b a | _ => false end
  | Sum r1 r2 => acc r1 w || acc r2 w
  | Cat r1 r2 => existsb (fun k => acc r1 (firstn k w) && acc r2 (skipn k w)) (seq 0 (S (length w)))
  | Star r1 => star_acc (acc r1) (length w) w
  end.

(* regexp_simplify: the rules of the Python, bottom-up *)
Fixpoint simplify (r : re) : re :=
  match r with
  | Zero | One | Sym _ => r
  | Star r1 =>
    let o := simplify r1 in
    match o with
    | Zero | One => One
    | Star _ => o
    | _ => Star o
    end
  | Sum r1 r2 =>
    let l := simplify r1 in let rr := simplify r2 in
    match l with
    | Zero => rr
    | _ => match rr with Zero => l | _ => Sum l rr end
    end
  | Cat r1 r2 =>
    let l := simplify r1 in let rr := simplify r2 in
    match l with
    | Zero => Zero
    | One => rr
    | _ => match rr with Zero => Zero | One => l | _ => Cat l rr end
    end
  end.

(* regexp_size (operators weighted as in the Python) and the plain node count *)
Fixpoint regexp_size (r : re) : nat :=
  match r with
  | Zero | One | Sym _ => 0
  | Star r1 => regexp_size r1 + 1
  | Sum r1 r2 | Cat r1 r2 => regexp_size r1 + regexp_size r2 + 2
  end.

Fixpoint nodes (r : re) : nat :=
  match r with
  | Zero | One | Sym _ => 1
  | Star r1 => S (nodes r1)
  | Sum r1 r2 | Cat r1 r2 => S (nodes r1 + nodes r2)
  end.

(* concatenate(L1, L2) *)
Definition lang_concat (L1 L2 : list word) : list word :=
  flat_map (fun x => map (fun y => x ++ y) L2) L1.

(* regexp_words_up_to_n *)
Fixpoint star_words (f : nat -> list word) (fuel n : nat) {struct fuel} : list word :=
  match n with
  | 0 => [[]]
  | S _ =>
    match fuel with
    | 0 => [[]]
    | S fuel' => [] :: flat_map (fun k => lang_concat (f k) (star_words f fuel' (n - k))) (seq 1 n)
    end
  end.

Fixpoint re_words (r : re) (n : nat) {struct r} : list word :=
  match r with
  | Zero => []
  | One => [[]]
  | Sym a => match n with 0 => [] | S _ => [[a]] end
  | Sum r1 r2 => re_words r1 n ++ re_words r2 n
  | Cat r1 r2 => flat_map (fun k => lang_concat (re_words r1 k) (re_words r2 (n - k))) (seq 0 (S n))
  | Star r1 => star_words (re_words r1) n n
  end.

(* regexp_symbols *)
Fixpoint re_symbols (r : re) : list nat :=
  match r with
  | Zero | One => []
  | Sym a => [a]
  | Star r1 => re_symbols r1
  | Sum r1 r2 | Cat r1 r2 => re_symbols r1 ++ re_symbols r2
  end.

Fixpoint re_eqb (r s : re) : bool :=
  match r, s with
  | Zero, Zero | One, One => true
  | Sym a, Sym b => Nat.eqb a b
  | Sum r1 r2, Sum s1 s2 | Cat r1 r2, Cat s1 s2 => re_eqb r1 s1 && re_eqb r2 s2
  | Star r1, Star s1 => re_eqb r1 s1
  | _, _ => false
  end.
