From GT Require Import Base.Prelude Base.Sort Model.DFA Model.NFA Model.Minimize Decide.DFAEquiv Judge.Common.

Definition rep_head (l : list nat) : option nat := hd_error l.
Definition idA (l : list nat) := l.
Definition idB (l : list (list nat)) := l.

Definition m_minimize (D : dfa nat) := dfa_minimize canon_nat idA D.
Definition m_quotient (D : dfa nat) := dfa_quotient canon_nat idA rep_head D.
Definition m_hopcroft (D : dfa nat) := dfa_hopcroft canon_nat idB pick_head D.

(* Myhill-Nerode classes of a set of states of D, through the (proved) Moore refinement of the model *)
Definition mn_blocks (D : dfa nat) : list (list nat) := match m_quotient D with Some Q => dQ Q | None => [] end.
Definition n_all (D : dfa nat) : nat := length (mn_blocks D).
Definition n_reach (D : dfa nat) : nat :=
  match dfa_reachable D with
  | Some R => length (filter (fun B => meetsb B R) (mn_blocks D))
  | None => 0
  end.
(* pairwise distinguishable: the quotient of D' has as many states as D' *)
Definition pairwise_dist {B} `{Eqb B} (D' : dfa B) (canonB : list B -> list B) (repB : list B -> option B) : bool :=
  match dfa_quotient canonB (fun l => l) repB D' with
  | Some Q => Nat.eqb (length (dQ Q)) (length (dedup (dQ D')))
  | None => false
  end.

Definition dfa_struct_eqb (D1 D2 : dfa (list nat)) : bool :=
  seteqb (dQ D1) (dQ D2) && seteqb (dS D1) (dS D2) && eqb (dq0 D1) (dq0 D2) && seteqb (dF D1) (dF D2) &&
  forallb (fun q => forallb (fun a => eqb (ddelta D1 q a) (ddelta D2 q a)) (dS D1)) (dQ D1).

(* property-level relation for one returned automaton; base code c *)
Definition judge_min (D : dfa nat) (oD' : option (dfa (list nat))) (model : option (dfa (list nat))) (c : nat) : nat :=
  match oD' with
  | None => c                                   (* the routine raised or timed out *)
  | Some D' =>
    if negb (dfa_wf_b D') then c + 1
    else if negb (seteqb (dS D') (dS D)) then c + 1
    else if negb (dfa_equivb D D') then c + 2
    else if negb (pairwise_dist D' (fun l => l) (@hd_error (list nat))) then c + 3
    else if negb (Nat.leb (n_reach D) (length (dedup (dQ D'))) && Nat.leb (length (dedup (dQ D'))) (n_all D)) then c + 4
    else match model with
         | Some M => if dfa_struct_eqb D' M then 0 else 1
         | None => 1
         end
  end.

Definition judge_C04 (D : dfa nat) (o_min o_quo o_hop : option (dfa (list nat))) (unchanged : bool) : nat :=
  worst_code [ check (dfa_wf_b D) 9;
               judge_min D o_min (m_minimize D) 10;
               judge_min D o_quo (m_quotient D) 20;
               judge_min D o_hop (m_hopcroft D) 30;
               check unchanged 40;
               (* the three proved models agree with each other *)
               check (match m_minimize D, m_quotient D, m_hopcroft D with
                      | Some a, Some b, Some c => dfa_struct_eqb a b && dfa_struct_eqb b c
                      | _, _, _ => false end) 8 ].

Definition explain_C04 (D : dfa nat) := (m_minimize D, m_quotient D, m_hopcroft D, n_reach D, n_all D).
