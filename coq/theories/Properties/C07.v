(* C07 — membership in a context-free language is decided exactly: the CYK table of a grammar in Chomsky normal
   form contains exactly the variables that generate the corresponding subword, cfg_accepts_word is exact on CNF
   grammars and (after the conversion of C08) on arbitrary grammars, CFG.is_chomsky is the CNF predicate, and
   cfg_words_up_to_n enumerates exactly the words of the language up to the given length.
   `cfg_lang G w` is the specification by derivations on sentential forms (Model/CFG.v); `yields` are parse trees
   (the two agree: Proofs/CFGBasics.derives_yields).
   Definitions local to Proofs files, referred to qualified:
     `CYKProofs.subword w i j` = w[i..j] inclusive                                   (Proofs/CYKProofs.v);
     `ChomskyEpsUnitProofs.names_disjoint G` = no variable name is a terminal name     (Proofs/ChomskyEpsUnitProofs.v);
     `ChomskyEpsUnitProofs.perm_order ordV` = the iteration order of a set is a permutation of it (same file).
   For arbitrary grammars the fresh variable names come from `stream` (Model/Chomsky.v); the result `None` means
   that the conversion ran out of names or was handed a name that is already a variable (C08_to_chomsky_total).
   The hypothesis that no name of the stream is a terminal name cannot be dropped
   (C08_to_chomsky_needs_nonterminal_names).  `ids_consistent` is not needed. *)
From GT Require Import Base.Prelude Model.CFG Model.Chomsky Model.CYK.
From GT Require Proofs.CFGBasics Proofs.CYKProofs Proofs.CFGEnumProofs Proofs.ChomskyEpsUnitProofs Proofs.ChomskyFinal.

Theorem C07_cyk_cell_exact : forall (G : cfg) (w : word) (i j A : nat),
  is_chomsky G -> cfg_wf G -> i <= j -> j < length w ->
  (In A (cget (cyk G w) i j) <-> In A (gV G) /\ yields G (Var A) (CYKProofs.subword w i j)).
Proof. exact CYKProofs.cyk_cell_exact. Qed.

Theorem C07_cnf_membership_exact : forall (G : cfg) (w : word),
  is_chomsky G -> cfg_wf G -> (cnf_accepts G w = true <-> cfg_lang G w).
Proof. exact CYKProofs.cnf_accepts_correct. Qed.

Theorem C07_membership_exact_any_grammar : forall (ordV : list nat -> list nat) (stream : list nat) (G : cfg) (w : word) (b : bool),
  cfg_wf G -> ChomskyEpsUnitProofs.names_disjoint G -> In (gS G) (gV G) -> ChomskyEpsUnitProofs.perm_order ordV ->
  (forall x, In x stream -> ~ In x (gSg G)) ->
  cfg_accepts ordV stream G w = Some b -> (b = true <-> cfg_lang G w).
Proof. exact ChomskyFinal.cfg_accepts_correct. Qed.

Theorem C07_is_chomsky_reflect : forall G : cfg, is_chomsky_b G = true <-> is_chomsky G.
Proof. exact CFGBasics.is_chomsky_b_spec. Qed.

(* cfg_words_up_to_n (as repaired, F12) *)
Theorem C07_words_up_to_n_cnf : forall (G : cfg) (n : nat) (w : word),
  is_chomsky G -> (In w (cnf_words G n) <-> length w <= n /\ cfg_lang G w).
Proof. exact CFGEnumProofs.cnf_words_exact. Qed.

Theorem C07_words_up_to_n_any_grammar : forall (ordV : list nat -> list nat) (stream : list nat) (G : cfg) (n : nat) (L : list word),
  cfg_wf G -> ChomskyEpsUnitProofs.names_disjoint G -> In (gS G) (gV G) -> ChomskyEpsUnitProofs.perm_order ordV ->
  (forall x, In x stream -> ~ In x (gSg G)) ->
  cfg_words ordV stream G n = Some L -> forall w, In w L <-> length w <= n /\ cfg_lang G w.
Proof. exact ChomskyFinal.cfg_words_exact. Qed.

Print Assumptions C07_cyk_cell_exact.
Print Assumptions C07_cnf_membership_exact.
Print Assumptions C07_membership_exact_any_grammar.
Print Assumptions C07_is_chomsky_reflect.
Print Assumptions C07_words_up_to_n_cnf.
Print Assumptions C07_words_up_to_n_any_grammar.
