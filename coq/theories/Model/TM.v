(* Model of gambatools.tm_algorithms: tm_do_transition, tm_accepts_word, tm_simulate_word,
   tm_words_up_to_n.  Executable Gallina, no proofs.  Direction: true = 'L', false = 'R'. *)
From GT Require Import Base.Prelude.

Record tm := mkTM {
  tQ : list nat; tSg : list nat; tGm : list nat;
  tD : list ((nat * nat) * (nat * nat * bool));
  tq0 : nat; tqa : nat; tqr : nat; tblank : nat }.

Definition config := (nat * list nat * nat)%type.   (* state, tape, head *)

Fixpoint set_nth (i : nat) (b : nat) (l : list nat) : list nat :=
  match l, i with
  | [], _ => []
  | _ :: l', 0 => b :: l'
  | x :: l', S i' => x :: set_nth i' b l'
  end.

Definition halting (T : tm) (q : nat) : bool := Nat.eqb q (tqr T) || Nat.eqb q (tqa T).

(* tm_do_transition on a non-halting state: look up (p, tape[head]); a missing entry is a move to
   q_reject writing the symbol back and moving right; 'L' at cell 0 stays; the tape is extended
   by one blank when the head reaches its end. *)
Definition tm_step (T : tm) (c : config) : config :=
  let '(p, tape, head) := c in
  let a := nth head tape (tblank T) in
  let '(q, b, d) := match lookup (p, a) (tD T) with Some x => x | None => (tqr T, a, false) end in
  let tape1 := set_nth head b tape in
  let head1 := if d then Nat.pred head else S head in
  (q, if Nat.eqb head1 (length tape1) then tape1 ++ [tblank T] else tape1, head1).

Definition tm_init (T : tm) (w : word) : config :=
  (tq0 T, match w with [] => [tblank T] | _ => w end, 0).

(* tm_accepts_word (as repaired, fix F11: a halting initial state decides at once):
   Some true / Some false / None = undecided within the budget *)
Fixpoint tm_run (T : tm) (k : nat) (c : config) : option bool :=
  let '(q, _, _) := c in
  if Nat.eqb q (tqa T) then Some true
  else if Nat.eqb q (tqr T) then Some false
  else match k with
       | 0 => None
       | S k' => tm_run T k' (tm_step T c)
       end.
Definition tm_accepts (T : tm) (w : word) (k : nat) : option bool := tm_run T k (tm_init T w).

(* tm_simulate_word: the configurations visited, stopping at the first halting state or after k steps *)
Fixpoint tm_trace (T : tm) (k : nat) (c : config) : list config :=
  let '(q, _, _) := c in
  if halting T q then [c]
  else match k with
       | 0 => [c]
       | S k' => c :: tm_trace T k' (tm_step T c)
       end.
Definition tm_simulate (T : tm) (w : word) (k : nat) : list config := tm_trace T k (tm_init T w).

(* tm_words_up_to_n *)
Definition tm_words (T : tm) (n k : nat) : list word :=
  filter (fun w => match tm_accepts T w k with Some true => true | _ => false end) (words_upto (tSg T) n).

(* _check_validity *)
Definition tm_wf_b (T : tm) : bool :=
  mem (tq0 T) (tQ T) && mem (tqa T) (tQ T) && mem (tqr T) (tQ T) && negb (Nat.eqb (tqr T) (tqa T))
  && negb (mem (tblank T) (tSg T)) && mem (tblank T) (tGm T) && subsetb (tSg T) (tGm T)
  && forallb (fun e => let '((p, a), (q, b, _)) := e in mem p (tQ T) && mem a (tGm T) && mem q (tQ T) && mem b (tGm T)) (tD T).
