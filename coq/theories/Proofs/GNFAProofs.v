(* C06 (second half): state elimination.  The regular expression extracted from a DFA by dfa_to_gnfa + gnfa_minimize
   (Model/GNFA.v) denotes exactly the language of the DFA, whatever the order in which the states are ripped. *)
From Coq Require Import Permutation.
From GT Require Import Base.Prelude Model.DFA Model.Regexp Model.GNFA Proofs.RegexpProofs Proofs.DFAOpsProofs.
Set Implicit Arguments.

Section GNFAProofs.
  Context {A : Type} `{Eqb A}.

  Lemma mem_cons (x a : A) (l : list A) : mem x (a :: l) = eqb x a || mem x l.
  Proof. reflexivity. Qed.

  (* ---------- reading the transition table ---------- *)
  Lemma gget_nil (x y : A) : gget [] x y = Zero.
  Proof. reflexivity. Qed.

  Lemma gget_update (d : @gdelta A) (i j : A) (v : re) (x y : A) :
    gget (update (i, j) v d) x y = if eqb x i && eqb y j then v else gget d x y.
  Proof.
    unfold gget. rewrite lookup_update.
    change (eqb (x, y) (i, j)) with (eqb x i && eqb y j).
    destruct (eqb x i && eqb y j); reflexivity.
  Qed.

  (* ---------- path language of a GNFA ----------
     gpath d Q t p w : w = w1 ++ ... ++ wk for a path p = p0, p1, ..., pk = t with p1 .. p(k-1) in Q
     and wi in L(d(p(i-1), pi)); a missing table entry is Zero. *)
  Inductive gpath (d : @gdelta A) (Q : list A) (t : A) : A -> word -> Prop :=
  | gp_edge p w : re_lang (gget d p t) w -> gpath d Q t p w
  | gp_via p r u v : In r Q -> re_lang (gget d p r) u -> gpath d Q t r v -> gpath d Q t p (u ++ v).

  Lemma gpath_incl (d : @gdelta A) (Q1 Q2 : list A) t p w : incl Q1 Q2 -> gpath d Q1 t p w -> gpath d Q2 t p w.
  Proof.
    intros Hi Hp. induction Hp as [p w He|p r u v Hr He Hp IH].
    - apply gp_edge; exact He.
    - apply gp_via with r; [apply Hi; exact Hr | exact He | exact IH].
  Qed.

  Lemma gpath_nil (d : @gdelta A) t p w : gpath d [] t p w <-> re_lang (gget d p t) w.
  Proof.
    split.
    - intros Hp. destruct Hp as [p w He|p r u v Hr He Hp]; [exact He | destruct Hr].
    - apply gp_edge.
  Qed.

  (* ---------- the language put on the edge i -> j when q is ripped ---------- *)
  Definition ripped_lang (d : @gdelta A) (q i j : A) (w : word) : Prop :=
    re_lang (gget d i j) w \/
    exists u v x, w = u ++ v ++ x /\ re_lang (gget d i q) u /\ re_lang (Star (gget d q q)) v /\ re_lang (gget d q j) x.

  Definition ripped_re (d : @gdelta A) (q i j : A) : re :=
    simplify (Sum (Cat (gget d i q) (Cat (Star (gget d q q)) (gget d q j))) (gget d i j)).

  Lemma ripped_re_lang (d : @gdelta A) q i j w : re_lang (ripped_re d q i j) w <-> ripped_lang d q i j w.
  Proof.
    unfold ripped_re, ripped_lang. rewrite (simplify_lang _ w). split.
    - intros Hl. inversion Hl as [| |r s w0 Hc|r s w0 Hr| | |]; subst.
      + right. inversion Hc as [| | | |r s u v0 Hu Hcv| |]; subst.
        inversion Hcv as [| | | |r s v x Hv Hx| |]; subst.
        exists u, v, x. auto.
      + left. exact Hr.
    - intros [Hr|(u & v & x & -> & Hu & Hv & Hx)].
      + apply LSumR. exact Hr.
      + apply LSumL. constructor; [exact Hu|]. constructor; assumption.
  Qed.

  (* ---------- the rip lemma, abstractly: d' carries the ripped labels on the edges a path can use ---------- *)
  Section RipAbstract.
    Variables (d d' : @gdelta A) (I I' : list A) (q t p0 : A).
    Hypothesis HI' : forall x, In x I' <-> In x I /\ x <> q.
    Hypothesis Hq : In q I.
    Hypothesis Htq : t <> q.
    Hypothesis Hd' : forall i j, (i = p0 \/ In i I') -> (j = t \/ In j I') ->
      forall w, re_lang (gget d' i j) w <-> ripped_lang d q i j w.

    Lemma loops_then v : re_lang (Star (gget d q q)) v -> forall x, gpath d I t q x -> gpath d I t q (v ++ x).
    Proof.
      remember (Star (gget d q q)) as s eqn:Es. intros Hv.
      induction Hv as [| | | | | r | r u v Hu Hv1 Hv IH]; try discriminate; intros x Hx.
      - exact Hx.
      - inversion Es; subst r. rewrite <- app_assoc. apply gp_via with q; [exact Hq | exact Hu | apply IH; auto].
    Qed.

    Lemma rip_sound p w : gpath d' I' t p w -> (p = p0 \/ In p I') -> gpath d I t p w.
    Proof.
      intros Hp. induction Hp as [p w He|p r u v Hr He Hp IH]; intros Hsrc.
      - apply (Hd' Hsrc (or_introl eq_refl)) in He.
        destruct He as [He|(u & v & x & -> & Hu & Hv & Hx)].
        + apply gp_edge; exact He.
        + apply gp_via with q; [exact Hq | exact Hu |]. apply loops_then; [exact Hv|]. apply gp_edge; exact Hx.
      - apply (Hd' Hsrc (or_intror Hr)) in He. specialize (IH (or_intror Hr)).
        pose proof (proj1 (proj1 (HI' r) Hr)) as HrI.
        destruct He as [He|(u1 & v1 & x1 & -> & Hu & Hv & Hx)].
        + apply gp_via with r; assumption.
        + rewrite <- !app_assoc. apply gp_via with q; [exact Hq | exact Hu |].
          apply loops_then; [exact Hv|]. apply gp_via with r; assumption.
    Qed.

    (* cut a path at its visits to q *)
    Lemma rip_complete_gen p w : gpath d I t p w ->
      (p <> q -> (p = p0 \/ In p I') -> gpath d' I' t p w) /\
      (p = q -> exists v x rest k, w = v ++ x ++ rest /\ re_lang (Star (gget d q q)) v /\ re_lang (gget d q k) x /\
                  ((k = t /\ rest = []) \/ (In k I' /\ gpath d' I' t k rest))).
    Proof.
      intros Hp. induction Hp as [p w He|p r u v Hr He Hp [IH1 IH2]].
      - split.
        + intros _ Hsrc. apply gp_edge. apply (Hd' Hsrc (or_introl eq_refl)). left; exact He.
        + intros ->. exists [], w, [], t. rewrite app_nil_r. cbn [app].
          split; [reflexivity|]. split; [constructor|]. split; [exact He|]. left; auto.
      - split.
        + intros Hpne Hsrc. destruct (eqb_dec r q) as [->|Hrne].
          * destruct (IH2 eq_refl) as (v1 & x & rest & k & -> & Hv1 & Hx & Hk).
            destruct Hk as [[-> ->]|[Hk Hrest]].
            -- rewrite app_nil_r. apply gp_edge. apply (Hd' Hsrc (or_introl eq_refl)).
               right. exists u, v1, x. auto.
            -- rewrite !app_assoc. apply gp_via with k; [exact Hk | | exact Hrest].
               apply (Hd' Hsrc (or_intror Hk)). right. exists u, v1, x. rewrite <- !app_assoc. auto.
          * assert (Hr' : In r I') by (apply HI'; auto).
            apply gp_via with r; [exact Hr' | | apply IH1; auto].
            apply (Hd' Hsrc (or_intror Hr')). left; exact He.
        + intros ->. destruct (eqb_dec r q) as [->|Hrne].
          * destruct (IH2 eq_refl) as (v1 & x & rest & k & -> & Hv1 & Hx & Hk).
            exists (u ++ v1), x, rest, k. split; [rewrite <- app_assoc; reflexivity|].
            split; [constructor; assumption|]. split; [exact Hx | exact Hk].
          * assert (Hr' : In r I') by (apply HI'; auto).
            exists [], u, v, r. split; [reflexivity|]. split; [constructor|]. split; [exact He|].
            right. split; [exact Hr' | apply IH1; auto].
    Qed.

    Lemma rip_lemma_abstract w : p0 <> q -> (gpath d' I' t p0 w <-> gpath d I t p0 w).
    Proof.
      intros Hp0. split.
      - intros Hp. apply rip_sound; [exact Hp | left; reflexivity].
      - intros Hp. apply (proj1 (rip_complete_gen Hp) Hp0). left; reflexivity.
    Qed.
  End RipAbstract.

  (* ---------- what `rip` computes: the in-place updates amount to a simultaneous update ---------- *)
  Lemma rip_inner_gget (R1 R2 : re) (q i : A) (Js : list A) : i <> q -> NoDup Js ->
    forall (d : @gdelta A) x y,
    gget (fold_left (fun d q_j =>
            update (i, q_j) (simplify (Sum (Cat R1 (Cat (Star R2) (gget d q q_j))) (gget d i q_j))) d) Js d) x y =
    if eqb x i && mem y Js then simplify (Sum (Cat R1 (Cat (Star R2) (gget d q y))) (gget d i y)) else gget d x y.
  Proof.
    intros Hiq Hnd. induction Hnd as [|j Js Hj Hnd IH]; intros d x y.
    - cbn [fold_left]. unfold mem. cbn [existsb]. rewrite andb_false_r. reflexivity.
    - cbn [fold_left]. rewrite IH. rewrite !gget_update.
      assert (Eqi : eqb q i = false) by (apply eqb_neq; congruence).
      rewrite Eqi. cbn [andb]. rewrite eqb_refl. cbn [andb].
      rewrite mem_cons.
      destruct (eqb x i) eqn:Ex; cbn [andb]; [|reflexivity].
      destruct (mem y Js) eqn:Ey.
      + rewrite orb_true_r. assert (Eyj : eqb y j = false).
        { apply eqb_neq. intros ->. apply Hj. apply mem_In; exact Ey. }
        rewrite Eyj. reflexivity.
      + rewrite orb_false_r. destruct (eqb y j) eqn:Eyj; [|reflexivity].
        apply eqb_true in Eyj. subst y. reflexivity.
  Qed.

  Lemma rip_outer_gget (R2 : re) (q : A) (Is Js : list A) : NoDup Is -> ~ In q Is -> NoDup Js -> ~ In q Js ->
    forall (d : @gdelta A) x y,
    gget (fold_left (fun d q_i =>
            let R1 := gget d q_i q in
            fold_left (fun d q_j =>
              let R3 := gget d q q_j in
              let R4 := gget d q_i q_j in
              update (q_i, q_j) (simplify (Sum (Cat R1 (Cat (Star R2) R3)) R4)) d) Js d) Is d) x y =
    if mem x Is && mem y Js then simplify (Sum (Cat (gget d x q) (Cat (Star R2) (gget d q y))) (gget d x y))
    else gget d x y.
  Proof.
    intros HndI HqI HndJ HqJ. induction HndI as [|i Is Hi HndI IH]; intros d x y.
    - cbn [fold_left]. reflexivity.
    - cbn [fold_left]. cbn zeta.
      assert (Hiq : i <> q) by (intros ->; apply HqI; left; reflexivity).
      assert (HqI' : ~ In q Is) by (intros Hc; apply HqI; right; exact Hc).
      rewrite (IH HqI'). rewrite !(rip_inner_gget _ _ Hiq HndJ).
      assert (EqJ : mem q Js = false) by (apply mem_nIn; exact HqJ).
      assert (Eqi : eqb q i = false) by (apply eqb_neq; congruence).
      rewrite EqJ, Eqi, andb_false_r. cbn [andb].
      rewrite mem_cons.
      destruct (mem x Is) eqn:Ex.
      + assert (Exi : eqb x i = false).
        { apply eqb_neq. intros ->. apply Hi. apply mem_In; exact Ex. }
        rewrite Exi. cbn [andb orb]. reflexivity.
      + rewrite orb_false_r. cbn [andb]. destruct (eqb x i) eqn:Exi; cbn [andb]; [|reflexivity].
        apply eqb_true in Exi. subst x. reflexivity.
  Qed.

  Lemma rip_gget (start accept : A) (Q' : list A) (q : A) (d : @gdelta A) x y : NoDup Q' -> ~ In q Q' ->
    gget (rip start accept Q' q d) x y =
    if mem x (filter (fun z => negb (eqb z accept)) Q') && mem y (filter (fun z => negb (eqb z start)) Q')
    then ripped_re d q x y else gget d x y.
  Proof.
    intros Hnd Hq. unfold rip, ripped_re. cbn zeta.
    apply rip_outer_gget.
    - apply NoDup_filter; exact Hnd.
    - rewrite filter_In. tauto.
    - apply NoDup_filter; exact Hnd.
    - rewrite filter_In. tauto.
  Qed.

  (* ---------- the rip lemma for the model ----------
     Q' : the states remaining after q has been removed (it contains start and accept);
     I  : the inner states before the rip, I' the inner states after it. *)
  Theorem rip_lemma (start accept : A) (Q' I I' : list A) (q : A) (d : @gdelta A) (w : word) :
    start <> accept -> NoDup Q' -> ~ In q Q' -> In start Q' -> In accept Q' ->
    In q I -> (forall x, In x I' <-> In x I /\ x <> q) -> incl I' Q' -> ~ In start I -> ~ In accept I ->
    (gpath (rip start accept Q' q d) I' accept start w <-> gpath d I accept start w).
  Proof.
    intros Hsa Hnd HqQ' Hs Ha Hq HI' Hincl HsI HaI.
    assert (Hsq : start <> q) by (intros ->; contradiction).
    assert (Haq : accept <> q) by (intros ->; contradiction).
    apply rip_lemma_abstract with (q := q); try assumption.
    intros i j Hi Hj w0. rewrite (@rip_gget start accept Q' q d i j Hnd HqQ').
    assert (Ei : mem i (filter (fun z => negb (eqb z accept)) Q') = true).
    { apply mem_In, filter_In. rewrite negb_true_iff, eqb_neq. destruct Hi as [->|Hi].
      - split; [exact Hs | exact Hsa].
      - split; [apply Hincl; exact Hi|]. intros ->. apply HaI. apply HI'. exact Hi. }
    assert (Ej : mem j (filter (fun z => negb (eqb z start)) Q') = true).
    { apply mem_In, filter_In. rewrite negb_true_iff, eqb_neq. destruct Hj as [->|Hj].
      - split; [exact Ha | congruence].
      - split; [apply Hincl; exact Hj|]. intros ->. apply HsI. apply HI'. exact Hj. }
    rewrite Ei, Ej. cbn [andb]. apply ripped_re_lang.
  Qed.

  (* ---------- ripping all inner states, in any order ---------- *)
  Lemma In_filter_neq (q x : A) (l : list A) : In x (filter (fun z => negb (eqb z q)) l) <-> In x l /\ x <> q.
  Proof. rewrite filter_In, negb_true_iff, eqb_neq. tauto. Qed.

  Theorem rip_all_lang (start accept : A) (order : list A) : start <> accept -> ~ In start order -> ~ In accept order ->
    NoDup order -> forall (Q : list A) (d : @gdelta A), NoDup Q -> In start Q -> In accept Q -> incl order Q ->
    forall w, re_lang (gget (rip_all start accept Q order d) start accept) w <-> gpath d order accept start w.
  Proof.
    intros Hsa Hso Hao Hndo. induction Hndo as [|q order Hq Hndo IH]; intros Q d HndQ Hs Ha Hincl w.
    - cbn [rip_all]. symmetry. apply gpath_nil.
    - cbn [rip_all]. cbn zeta.
      assert (Hsq : start <> q) by (intros ->; apply Hso; left; reflexivity).
      assert (Haq : accept <> q) by (intros ->; apply Hao; left; reflexivity).
      assert (Hso' : ~ In start order) by (intros Hc; apply Hso; right; exact Hc).
      assert (Hao' : ~ In accept order) by (intros Hc; apply Hao; right; exact Hc).
      assert (Hincl' : incl order (filter (fun z => negb (eqb z q)) Q)).
      { intros x Hx. apply In_filter_neq. split; [apply Hincl; right; exact Hx|]. intros ->. contradiction. }
      rewrite (IH Hso' Hao').
      + apply rip_lemma with (q := q) (I := q :: order); try assumption.
        * apply NoDup_filter; exact HndQ.
        * rewrite In_filter_neq. tauto.
        * apply In_filter_neq; auto.
        * apply In_filter_neq; auto.
        * left; reflexivity.
        * intros x. cbn [In]. split.
          -- intros Hx. split; [right; exact Hx|]. intros ->. contradiction.
          -- intros [[Hx|Hx] Hne]; [congruence | exact Hx].
      + apply NoDup_filter; exact HndQ.
      + apply In_filter_neq; auto.
      + apply In_filter_neq; auto.
      + exact Hincl'.
  Qed.

  (* ---------- the GNFA of a DFA: the labels, as languages ---------- *)
  Lemma fold_final_lang (accept : A) (l : list A) : forall d : @gdelta A,
    (forall p p' w, re_lang (gget d p p') w -> w = []) ->
    forall p p' w,
      re_lang (gget (fold_left (fun d q => update (q, accept) One d) l d) p p') w <->
      re_lang (gget d p p') w \/ (w = [] /\ In p l /\ p' = accept).
  Proof.
    induction l as [|a l IH]; intros d Hinv p p' w.
    - cbn [fold_left In]. tauto.
    - cbn [fold_left]. rewrite IH.
      + rewrite gget_update. cbn [In]. destruct (eqb p a) eqn:Ep; cbn [andb].
        * apply eqb_true in Ep. subst a. destruct (eqb p' accept) eqn:Ep'.
          -- apply eqb_true in Ep'. subst p'. split.
             ++ intros [Hl|Hr]; [|tauto]. inversion Hl; subst. right. auto.
             ++ intros [Hl|[-> _]]; [apply Hinv in Hl; subst w|]; left; constructor.
          -- apply eqb_neq in Ep'. tauto.
        * apply eqb_neq in Ep. split; [tauto|]. intros [Hl|[Hw [[Hc|Hi] Hp']]]; [tauto | congruence | tauto].
      + intros x y u. rewrite gget_update. destruct (eqb x a && eqb y accept).
        * intros Hl. inversion Hl. reflexivity.
        * apply Hinv.
  Qed.

  Definition gnfa_delta_step (d : @gdelta A) (e : (A * nat) * A) : @gdelta A :=
    let '((q, a), q1) := e in
    match lookup (q, q1) d with
    | Some r => update (q, q1) (Sum r (Sym a)) d
    | None => update (q, q1) (Sym a) d
    end.

  Lemma gnfa_delta_step_lang (d : @gdelta A) q a q1 p p' w :
    re_lang (gget (gnfa_delta_step d ((q, a), q1)) p p') w <->
    re_lang (gget d p p') w \/ (p = q /\ p' = q1 /\ w = [a]).
  Proof.
    unfold gnfa_delta_step.
    assert (Hcase : eqb p q && eqb p' q1 = true <-> p = q /\ p' = q1).
    { rewrite andb_true_iff. split; intros [E1 E2]; [split; apply eqb_true; assumption | subst; split; apply eqb_refl]. }
    destruct (lookup (q, q1) d) as [r|] eqn:El; rewrite gget_update;
      (destruct (eqb p q && eqb p' q1) eqn:E;
       [destruct (proj1 Hcase eq_refl) as [-> ->]; unfold gget; rewrite El
       | assert (Hn : ~ (p = q /\ p' = q1)) by (intros Hc; apply Hcase in Hc; discriminate); tauto]).
    - split.
      + intros Hl. inversion Hl as [| |r0 s0 w0 Hr|r0 s0 w0 Hs| | |]; subst; [left; exact Hr|].
        inversion Hs; subst. right; auto.
      + intros [Hl|(_ & _ & ->)]; [apply LSumL; exact Hl | apply LSumR; constructor].
    - split.
      + intros Hl. inversion Hl; subst. right; auto.
      + intros [Hl|(_ & _ & ->)]; [inversion Hl | constructor].
  Qed.

  Lemma fold_delta_lang (l : list ((A * nat) * A)) : forall (d : @gdelta A) p p' w,
    re_lang (gget (fold_left gnfa_delta_step l d) p p') w <->
    re_lang (gget d p p') w \/ exists a, w = [a] /\ In ((p, a), p') l.
  Proof.
    induction l as [|[[q a] q1] l IH]; intros d p p' w.
    - cbn [fold_left In]. split; [auto | intros [Hl|[a [_ []]]]; exact Hl].
    - cbn [fold_left]. rewrite IH, gnfa_delta_step_lang. cbn [In]. split.
      + intros [[Hl|(-> & -> & ->)]|[b [-> Hb]]]; [left; exact Hl | right; exists a; auto | right; exists b; auto].
      + intros [Hl|[b [-> [Hb|Hb]]]]; [auto | inversion Hb; subst; auto | right; exists b; auto].
  Qed.

  Lemma dfa_to_gnfa_edges (start accept : A) (D : dfa A) (d : @gdelta A) : dfa_to_gnfa start accept D = Some d ->
    ~ In start (dQ D) /\ ~ In accept (dQ D) /\
    forall p p' w, re_lang (gget d p p') w <->
      (w = [] /\ p = start /\ p' = dq0 D) \/ (w = [] /\ In p (dF D) /\ p' = accept) \/
      (exists a, w = [a] /\ In ((p, a), p') (dD D)).
  Proof.
    unfold dfa_to_gnfa. destruct (mem start (dQ D) || mem accept (dQ D)) eqn:E; [discriminate|].
    apply orb_false_iff in E. destruct E as [Es Ea]. apply mem_nIn in Es. apply mem_nIn in Ea.
    intros Hd. inversion Hd as [Hd']. clear Hd. split; [exact Es|]. split; [exact Ea|]. intros p p' w.
    change (fold_left _ (dD D) ?x) with (fold_left gnfa_delta_step (dD D) x).
    rewrite fold_delta_lang.
    assert (H0 : forall x y u, re_lang (gget (update (start, dq0 D) One ([] : @gdelta A)) x y) u <->
                               u = [] /\ x = start /\ y = dq0 D).
    { intros x y u. rewrite gget_update, gget_nil. destruct (eqb x start) eqn:E1; cbn [andb].
      - apply eqb_true in E1. subst x. destruct (eqb y (dq0 D)) eqn:E2.
        + apply eqb_true in E2. subst y. split; [intros Hl; inversion Hl; auto | intros [-> _]; constructor].
        + apply eqb_neq in E2. split; [intros Hl; inversion Hl | tauto].
      - apply eqb_neq in E1. split; [intros Hl; inversion Hl | tauto]. }
    rewrite fold_final_lang.
    - rewrite H0. tauto.
    - intros x y u Hl. apply H0 in Hl. tauto.
  Qed.

  (* ---------- L(GNFA of D) = L(D) ---------- *)
  Theorem dfa_to_gnfa_lang (start accept : A) (D : dfa A) (d : @gdelta A) :
    dfa_wf D -> NoDup (map fst (dD D)) -> dfa_to_gnfa start accept D = Some d ->
    forall w, gpath d (dQ D) accept start w <-> dfa_lang D w.
  Proof.
    intros Hwf Hkeys Hd w. destruct (dfa_to_gnfa_edges _ _ _ Hd) as [Hs [Ha Hedge]].
    pose proof Hwf as [Hq0 [HF [Hdelta _]]].
    (* inside Q *)
    assert (Hfwd : forall p u, gpath d (dQ D) accept p u -> In p (dQ D) -> exists qf, dfa_path D p u qf /\ In qf (dF D)).
    { intros p u Hp. induction Hp as [p u He|p r u v Hr He Hp IH]; intros Hin.
      - apply Hedge in He. destruct He as [(_ & -> & _)|[(-> & Hf & _)|[a [_ Hi]]]].
        + contradiction.
        + exists p. split; [constructor | exact Hf].
        + apply Hdelta in Hi. tauto.
      - apply Hedge in He. destruct He as [(_ & -> & _)|[(_ & _ & ->)|[a [-> Hi]]]].
        + contradiction.
        + contradiction.
        + destruct (IH Hr) as [qf [Hpath Hf]]. exists qf. split; [|exact Hf].
          cbn [app]. apply dp_cons with r; [|exact Hpath]. unfold ddelta. apply lookup_NoDup; assumption. }
    assert (Hbwd : forall p u qf, dfa_path D p u qf -> In p (dQ D) -> In qf (dF D) -> gpath d (dQ D) accept p u).
    { intros p u qf Hp. induction Hp as [p|p a q1 u qf Hstep Hp IH]; intros Hin Hf.
      - apply gp_edge. apply Hedge. right; left. auto.
      - unfold ddelta in Hstep. apply lookup_In in Hstep. pose proof (Hdelta _ _ _ Hstep) as [_ [_ Hq1]].
        change (a :: u) with ([a] ++ u). apply gp_via with q1; [exact Hq1 | | apply IH; assumption].
        apply Hedge. right; right. exists a. auto. }
    split.
    - intros Hp. inversion Hp as [p u He|p r u v Hr He Hp']; subst.
      + apply Hedge in He. destruct He as [(_ & _ & Hc)|[(_ & Hf & _)|[a [_ Hi]]]].
        * rewrite Hc in Ha. contradiction.
        * apply HF in Hf. contradiction.
        * apply Hdelta in Hi. tauto.
      + apply Hedge in He. destruct He as [(-> & _ & ->)|[(_ & Hf & _)|[a [_ Hi]]]].
        * cbn [app]. apply Hfwd; assumption.
        * apply HF in Hf. contradiction.
        * apply Hdelta in Hi. tauto.
    - intros [qf [Hp Hf]]. change w with ([] ++ w). apply gp_via with (dq0 D); [exact Hq0 | |].
      + apply Hedge. left. auto.
      + apply (Hbwd _ _ _ Hp Hq0 Hf).
  Qed.

  (* ---------- composition: C06 ---------- *)
  Lemma dfa_to_regexp_none (start accept : A) (order : list A) (D : dfa A) :
    dfa_to_regexp start accept order D = None <-> In start (dQ D) \/ In accept (dQ D).
  Proof.
    unfold dfa_to_regexp, dfa_to_gnfa. rewrite <- !mem_In.
    destruct (mem start (dQ D)), (mem accept (dQ D)); cbn [orb]; split; auto; try discriminate.
    intros [Hc|Hc]; discriminate.
  Qed.

  Theorem dfa_to_regexp_correct (start accept : A) (order : list A) (D : dfa A) (r : re) :
    dfa_wf D -> NoDup (map fst (dD D)) -> NoDup (dQ D) -> start <> accept ->
    Permutation order (dQ D) -> dfa_to_regexp start accept order D = Some r ->
    forall w, re_lang r w <-> dfa_lang D w.
  Proof.
    intros Hwf Hkeys HndQ Hsa Hperm Hr w. unfold dfa_to_regexp in Hr.
    destruct (dfa_to_gnfa start accept D) as [d|] eqn:Hd; [|discriminate].
    inversion Hr as [Hr']. clear Hr. subst r.
    destruct (dfa_to_gnfa_edges _ _ _ Hd) as [Hs [Ha _]].
    assert (Hso : ~ In start order) by (intros Hc; apply Hs; apply (Permutation_in _ Hperm Hc)).
    assert (Hao : ~ In accept order) by (intros Hc; apply Ha; apply (Permutation_in _ Hperm Hc)).
    assert (Hndo : NoDup order) by (apply (Permutation_NoDup (Permutation_sym Hperm) HndQ)).
    rewrite (rip_all_lang Hsa Hso Hao Hndo).
    - rewrite <- (@dfa_to_gnfa_lang start accept D d Hwf Hkeys Hd w). split; apply gpath_incl; intros x Hx.
      + apply (Permutation_in _ Hperm Hx).
      + apply (Permutation_in _ (Permutation_sym Hperm) Hx).
    - apply NoDup_app_intro.
      + exact HndQ.
      + constructor; [intros Hc; cbn [In] in Hc; destruct Hc as [Hc|[]]; congruence|]. constructor; [intros Hc; destruct Hc|constructor].
      + intros x [<-|[<-|[]]]; assumption.
    - apply in_or_app. right. right. left. reflexivity.
    - apply in_or_app. right. left. reflexivity.
    - intros x Hx. apply in_or_app. left. apply (Permutation_in _ Hperm Hx).
  Qed.

End GNFAProofs.

(* ---------- sanity checks on concrete automata ---------- *)
(* even number of 1s over {0,1}; states 0 (initial, final) and 1; 'start' = 8, 'accept' = 9 *)
Definition D_even : dfa nat :=
  mkDFA [0; 1] [0; 1] [((0, 0), 0); ((0, 1), 1); ((1, 0), 1); ((1, 1), 0)] 0 [0].

Example D_even_regexp_01 :
  dfa_to_regexp 8 9 [0; 1] D_even
  = Some (Sum (Cat (Cat (Star (Sym 0)) (Sym 1))
                   (Cat (Star (Sum (Cat (Sym 1) (Cat (Star (Sym 0)) (Sym 1))) (Sym 0))) (Cat (Sym 1) (Star (Sym 0)))))
              (Star (Sym 0))).
Proof. vm_compute. reflexivity. Qed.

Example D_even_regexp_10 :
  dfa_to_regexp 8 9 [1; 0] D_even = Some (Star (Sum (Cat (Sym 1) (Cat (Star (Sym 0)) (Sym 1))) (Sym 0))).
Proof. vm_compute. reflexivity. Qed.

(* the hypothesis start <> accept of dfa_to_regexp_correct is needed (in the Python the two names differ) *)
Example start_eq_accept_counterexample :
  dfa_to_regexp 9 9 [0; 1] D_even = Some Zero /\ dfa_accepts D_even [] = Some true.
Proof. vm_compute. split; reflexivity. Qed.

(* so is uniqueness of the keys of delta (a Python dict has unique keys): with the shadowed entry ((0,1),0)
   the GNFA gets the edge 0 -1-> 0 that the DFA never takes *)
Definition D_even_dup : dfa nat :=
  mkDFA [0; 1] [0; 1] [((0, 0), 0); ((0, 1), 1); ((1, 0), 1); ((1, 1), 0); ((0, 1), 0)] 0 [0].
Example dup_key_counterexample :
  dfa_wf_b D_even_dup = true /\
  (match dfa_to_regexp 8 9 [0; 1] D_even_dup with Some r => acc r [1] | None => false end) = true /\
  dfa_accepts D_even_dup [1] = Some false.
Proof. vm_compute. repeat split; reflexivity. Qed.

Print Assumptions rip_lemma.
Print Assumptions rip_all_lang.
Print Assumptions dfa_to_gnfa_lang.
Print Assumptions dfa_to_regexp_correct.
Print Assumptions dfa_to_regexp_none.
