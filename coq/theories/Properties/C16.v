(* C16 (automata part) — "Printing an object and parsing the text returns the same object: for every DFA, NFA, PDA and
   Turing machine over single-character symbols with a printable epsilon / blank symbol, parsing the printed text
   yields an automaton with identical states, alphabets, transitions, initial and accepting / halting states."

   Token-level models: Model/Printer.v (print_dfa / print_nfa / print_pda / print_tm; `ord`, `ordP` stand for
   sorted(...): ANY functions returning a permutation of their argument) and Model/Parser.v (parse_dfa / parse_nfa /
   parse_pda / parse_tm).  The re-parsed object is equal to the printed one as sets, field by field
   (Proofs/ParserProofs.v):
     tdfa_equiv : seteq Q, Sigma, delta, F; equal lookup in delta; equal q0
     tnfa_equiv : seteq Q, Sigma, F; equal q0, epsilon; the same transition relation
                  tn_step N p a q := exists s, lookup (p, a) (tnD N) = Some s /\ In q s
                  (a key whose target set is empty prints nothing and disappears: C16_nfa_empty_target_key_vanishes)
     tpda_equiv : seteq Q, Sigma, Gamma, delta, F; equal q0, epsilon
     ttm_equiv  : seteq Q, Sigma, Gamma; equal lookup in delta; equal q0, accept, reject, blank
   Side conditions (each is needed, see the witnesses at the end):
     - the object satisfies its class invariant (t*_wf_b), state lists and accepting sets are duplicate-free
       (a repeated name is rejected by the parser), delta of a DFA / NFA / TM is a dict (unique keys);
     - every state name matches \w+ (re_word; in particular it does not start with '%');
     - every state that is the SOURCE of a printed transition is not one of states / final / initial / a keyword of the
       format (kw_dfa = input_symbols only: parse_dfa passes dfa_keywords(), so a DFA state may be named like a
       keyword of another format, e.g. blank / accept); target-only states such as the default halting states
       `accept` / `reject` of a TM are unrestricted;
     - DFA / NFA input symbols match \w+ (they may be longer than one character), the NFA epsilon is a non-empty word;
     - PDA input symbols and epsilon are single \w characters, stack symbols single characters of the label class;
       TM tape symbols (incl. blank) are single characters of the TM label class.
   The regular-expression and grammar parts of C16 are stated at the end of this file (theorems C16_regexp_..., C16_cfg_...);
   the ANTLR-generated regexp parsers and the string splitting of the grammar parser stay in the harness. *)
From Coq Require Import Permutation.
From GT Require Import Base.Prelude Model.Tokens Model.Parser Model.Printer Proofs.ParserProofs.

Theorem C16_print_parse_dfa : forall (ord : list token -> list token) (ordP : list (token * token) -> list (token * token)),
  (forall l, Permutation (ord l) l) -> (forall l, Permutation (ordP l) l) ->
  forall D : tdfa,
    tdfa_wf_b D = true -> NoDup (tdQ D) -> NoDup (tdF D) -> NoDup (map fst (tdD D)) ->
    (forall q, In q (tdQ D) -> re_word q = true) ->
    (forall p a q, In ((p, a), q) (tdD D) -> is_reserved kw_dfa p = false) ->
    (forall a, In a (tdS D) -> re_word a = true) ->
    exists D', parse_dfa (print_dfa ord ordP D) = Some D' /\ tdfa_equiv D D'.
Proof. exact print_parse_dfa. Qed.

Theorem C16_print_parse_nfa : forall (ord : list token -> list token) (ordP : list (token * token) -> list (token * token)),
  (forall l, Permutation (ord l) l) -> (forall l, Permutation (ordP l) l) ->
  forall N : tnfa,
    tnfa_wf_b N = true -> NoDup (tnQ N) -> NoDup (tnF N) -> NoDup (map fst (tnD N)) ->
    (forall q, In q (tnQ N) -> re_word q = true) ->
    (forall p a s, In ((p, a), s) (tnD N) -> s <> [] -> is_reserved kw_nfa p = false) ->
    (forall a, In a (tnS N) -> re_word a = true) -> tneps N <> [] ->
    exists N', parse_nfa (print_nfa ord ordP N) = Some N' /\ tnfa_equiv N N'.
Proof. exact print_parse_nfa. Qed.

Theorem C16_print_parse_pda : forall (ord : list token -> list token) (ordP : list (token * token) -> list (token * token)),
  (forall l, Permutation (ord l) l) -> (forall l, Permutation (ordP l) l) ->
  forall P : tpda,
    tpda_wf_b P = true -> NoDup (tpQ P) -> NoDup (tpF P) ->
    (forall q, In q (tpQ P) -> re_word q = true) ->
    (forall p a u q v, In (p, a, u, q, v) (tpD P) -> is_reserved kw_pda p = false) ->
    (forall a, In a (tpS P) -> single_w a) -> (forall u, In u (tpG P) -> single_sym u) -> single_w (tpeps P) ->
    exists P', parse_pda (print_pda ord ordP P) = Some P' /\ tpda_equiv P P'.
Proof. exact print_parse_pda. Qed.

Theorem C16_print_parse_tm : forall (ord : list token -> list token) (ordP : list (token * token) -> list (token * token)),
  (forall l, Permutation (ord l) l) -> (forall l, Permutation (ordP l) l) ->
  forall T : ttm,
    ttm_wf_b T = true -> NoDup (ttQ T) -> NoDup (map fst (ttD T)) ->
    (forall q, In q (ttQ T) -> re_word q = true) ->
    (forall p a v, In ((p, a), v) (ttD T) -> is_reserved kw_tm p = false) ->
    (forall g, In g (ttG T) -> single_tm g) ->
    exists T', parse_tm (print_tm ord ordP T) = Some T' /\ ttm_equiv T T'.
Proof. exact print_parse_tm. Qed.

(* the printed transition lines carry exactly the transitions (a permutation), whatever the order of the pairs *)
Theorem C16_regroup_perm : forall ordP : list (token * token) -> list (token * token),
  (forall l, Permutation (ordP l) l) -> forall trs, Permutation (regroup ordP trs) trs.
Proof. exact regroup_perm. Qed.

(* state names matching \w+ never start a comment *)
Theorem C16_re_word_not_percent : forall q, re_word q = true -> starts_percent q = false.
Proof. exact re_word_not_percent. Qed.

(* ---- witnesses: the side conditions are needed ---- *)
Require Coq.Strings.String.
Module C16_witness.
  Import Coq.Strings.String.
  Local Open Scope string_scope.
  Import ParserExamples.

  Theorem C16_dfa_other_keyword_state_ok :
    let D := mkTDFA [tok "blank"] [tok "a"] [((tok "blank", tok "a"), tok "blank")] (tok "blank") [] in
    tdfa_wf_b D = true /\ parse_dfa (print_dfa idT idP D) = Some D.
  Proof. exact dfa_other_keyword_state_ok. Qed.

  Theorem C16_dfa_accept_state_ok :
    let D := mkTDFA [tok "accept"; tok "reject"] [tok "a"]
               [((tok "accept", tok "a"), tok "reject"); ((tok "reject", tok "a"), tok "accept")] (tok "accept") [tok "accept"] in
    tdfa_wf_b D = true /\ parse_dfa (print_dfa idT idP D) = Some D.
  Proof. exact dfa_accept_state_ok. Qed.

  Theorem C16_dfa_keyword_state_rejected :
    let D := mkTDFA [tok "input_symbols"] [tok "a"] [((tok "input_symbols", tok "a"), tok "input_symbols")] (tok "input_symbols") [] in
    tdfa_wf_b D = true /\ parse_dfa (print_dfa idT idP D) = None.
  Proof. exact dfa_keyword_state_rejected. Qed.

  Theorem C16_dfa_states_state_rejected :
    let D := mkTDFA [tok "states"] [tok "a"] [((tok "states", tok "a"), tok "states")] (tok "states") [] in
    tdfa_wf_b D = true /\ parse_dfa (print_dfa idT idP D) = None.
  Proof. exact dfa_states_state_rejected. Qed.

  Theorem C16_nfa_other_keyword_state_ok :
    let N := mkTNFA [tok "blank"] [tok "a"] [((tok "blank", tok "a"), [tok "blank"])] (tok "blank") [] (tok "_") in
    tnfa_wf_b N = true /\ parse_nfa (print_nfa idT idP N) = Some N.
  Proof. exact nfa_other_keyword_state_ok. Qed.

  Theorem C16_nfa_keyword_state_rejected :
    let N := mkTNFA [tok "epsilon"] [tok "a"] [((tok "epsilon", tok "a"), [tok "epsilon"])] (tok "epsilon") [] (tok "_") in
    tnfa_wf_b N = true /\ parse_nfa (print_nfa idT idP N) = None.
  Proof. exact nfa_keyword_state_rejected. Qed.

  Theorem C16_tm_default_halting_names_ok :
    let T := mkTTM [tok "p"; tok "accept"; tok "reject"] [tok "a"] [tok "a"; tok "_"]
               [((tok "p", tok "a"), (tok "accept", tok "a", true)); ((tok "p", tok "_"), (tok "reject", tok "a", false))]
               (tok "p") (tok "accept") (tok "reject") (tok "_") in
    ttm_wf_b T = true /\ parse_tm (print_tm idT idP T) = Some T.
  Proof. exact tm_default_halting_names_ok. Qed.

  Theorem C16_nfa_empty_target_key_vanishes :
    let N := mkTNFA [tok "p"] [tok "a"] [((tok "p", tok "a"), [])] (tok "p") [] (tok "_") in
    tnfa_wf_b N = true /\ option_map tnD (parse_nfa (print_nfa idT idP N)) = Some [].
  Proof. exact nfa_empty_target_key_vanishes. Qed.

  Theorem C16_dfa_duplicate_final_rejected :
    let D := mkTDFA [tok "p"] [] [] (tok "p") [tok "p"; tok "p"] in
    tdfa_wf_b D = true /\ parse_dfa (print_dfa idT idP D) = None.
  Proof. exact dfa_duplicate_final_rejected. Qed.

  Theorem C16_tm_duplicate_key_differs :
    let T := mkTTM [tok "p"; tok "qa"; tok "qr"] [tok "a"] [tok "a"; tok "_"]
               [((tok "p", tok "a"), (tok "qa", tok "a", true)); ((tok "p", tok "a"), (tok "qr", tok "a", false))]
               (tok "p") (tok "qa") (tok "qr") (tok "_") in
    ttm_wf_b T = true /\
    option_map (fun T' => lookup (tok "p", tok "a") (ttD T')) (parse_tm (print_tm idT idP T)) = Some (Some (tok "qr", tok "a", false)) /\
    lookup (tok "p", tok "a") (ttD T) = Some (tok "qa", tok "a", true).
  Proof. exact tm_duplicate_key_differs. Qed.

  Theorem C16_pda_long_stack_symbol_rejected :
    let P := mkTPDA [tok "p"] [tok "a"] [tok "XY"] [(tok "p", tok "a", tok "XY", tok "p", tok "_")] (tok "p") [] (tok "_") in
    tpda_wf_b P = true /\ parse_pda (print_pda idT idP P) = None.
  Proof. exact pda_long_stack_symbol_rejected. Qed.

  Theorem C16_dfa_long_symbol_ok :
    let D := mkTDFA [tok "p"] [tok "ab"] [((tok "p", tok "ab"), tok "p")] (tok "p") [] in
    parse_dfa (print_dfa idT idP D) = Some D.
  Proof. exact dfa_long_symbol_ok. Qed.
End C16_witness.

Print Assumptions C16_print_parse_dfa.
Print Assumptions C16_print_parse_nfa.
Print Assumptions C16_print_parse_pda.
Print Assumptions C16_print_parse_tm.
Print Assumptions C16_regroup_perm.
Print Assumptions C16_re_word_not_percent.
Print Assumptions C16_witness.C16_dfa_other_keyword_state_ok.
Print Assumptions C16_witness.C16_dfa_accept_state_ok.
Print Assumptions C16_witness.C16_dfa_keyword_state_rejected.
Print Assumptions C16_witness.C16_dfa_states_state_rejected.
Print Assumptions C16_witness.C16_nfa_other_keyword_state_ok.
Print Assumptions C16_witness.C16_nfa_keyword_state_rejected.
Print Assumptions C16_witness.C16_tm_default_halting_names_ok.
Print Assumptions C16_witness.C16_nfa_empty_target_key_vanishes.
Print Assumptions C16_witness.C16_dfa_duplicate_final_rejected.
Print Assumptions C16_witness.C16_tm_duplicate_key_differs.
Print Assumptions C16_witness.C16_pda_long_stack_symbol_rejected.
Print Assumptions C16_witness.C16_dfa_long_symbol_ok.

(* ================= C16, regular expressions and grammars =================
   "both concrete syntaxes [of regular expressions] re-parse to an expression with the same language and the same
   printed form; for every simple-format grammar whose variables all have rules the printed grammar re-parses to an
   equal grammar."

   Regular expressions (Model/RegexpSyntax.v): print_simple = print_regexp_simple, print_full = print_regexp,
   print_str = Regexp.__str__; texts are lists of character codes, `Sym a` prints as the code a;
   `symbols_ok r`: no symbol code of r is one of the syntax characters 0 1 + * ( ) . and blank
   (is_symbol_code a = true).  parse_simple is the reference recursive-descent parser of regexp_simple.g4
   (sum := cat ('+' cat)* ; cat := star star* ; star := atom '*'* ; atom := 0 | 1 | symbol | '(' sum ')', left
   associative); the harness compares the ANTLR parser with it.  The re-parsed expression is `lassoc r`, r with the
   chains of + and of concatenation re-associated to the left (`left_normal`).
   Definition local to Proofs/RegexpSyntaxProofs.v:
     `strip s` := filter (fun c => negb (Nat.eqb c c_space || Nat.eqb c c_dot)) s.

   Grammars (Model/CFGText.v): a printed grammar is a list of lines (X, [alt; ...]) (after the splits at "->" and
   "|"), grammars are Model/CFG.v's `cfg` with names = character codes; rule_key r = (rvar r, rrhs r) (CFG.__eq__
   compares V, Sigma, S and the sorted printed rules, i.e. the rules as a multiset, without Alternative identities).
   Definition local to Proofs/CFGTextProofs.v:
     `group_by ks l` := flat_map (fun X => filter (fun p => Nat.eqb (fst p) X) l) ks
   (the rules grouped by left-hand side: the printer emits one line per variable in order of first appearance, so the
   re-parsed rule list is this regrouping of the original one - a permutation, not the same order in general). *)
From GT Require Import Model.Regexp Model.RegexpSyntax Model.CFG Model.CFGText.
From GT Require Proofs.RegexpSyntaxProofs Proofs.CFGTextProofs.

Theorem C16_regexp_simple_print_parse : forall r : re, symbols_ok r ->
  exists r', parse_simple (print_simple r) = Some r' /\ print_simple r' = print_simple r /\
             (forall w, re_lang r' w <-> re_lang r w).
Proof. exact RegexpSyntaxProofs.parse_print_simple. Qed.

(* more precisely: the result is the left-associated form, which is r itself when r is left-associated *)
Theorem C16_regexp_simple_print_parse_lassoc : forall r : re, symbols_ok r ->
  parse_simple (print_simple r) = Some (lassoc r).
Proof. exact RegexpSyntaxProofs.parse_print_simple_lassoc. Qed.

Theorem C16_regexp_simple_print_parse_left_normal : forall r : re, symbols_ok r -> left_normal r ->
  parse_simple (print_simple r) = Some r.
Proof. exact RegexpSyntaxProofs.parse_print_simple_left_normal. Qed.

Theorem C16_regexp_lassoc_print : forall r : re, print_simple (lassoc r) = print_simple r.
Proof. exact RegexpSyntaxProofs.lassoc_print. Qed.

Theorem C16_regexp_lassoc_lang : forall (r : re) (w : word), re_lang (lassoc r) w <-> re_lang r w.
Proof. exact RegexpSyntaxProofs.lassoc_equiv. Qed.

Theorem C16_regexp_lassoc_normal : forall r : re, left_normal (lassoc r).
Proof. exact RegexpSyntaxProofs.lassoc_normal. Qed.

(* the fully parenthesised syntax determines the expression: any parser that inverts print_full returns r itself *)
Theorem C16_regexp_full_injective : forall r s : re, symbols_ok r -> symbols_ok s -> print_full r = print_full s -> r = s.
Proof. exact RegexpSyntaxProofs.print_full_injective. Qed.

(* str(r) is the simple text with " . " and " + " *)
Theorem C16_regexp_str_simple : forall r : re, symbols_ok r -> RegexpSyntaxProofs.strip (print_str r) = print_simple r.
Proof. exact RegexpSyntaxProofs.strip_print_str. Qed.

(* grammars; eps is the epsilon character the parser is run with *)
Theorem C16_cfg_print_parse_lines : forall (eps : nat) (G : cfg),
  (forall A, In A (gV G) -> 165 <= A <= 190) ->
  (forall a, In a (gSg G) -> 197 <= a <= 222) ->
  cfg_wf G ->
  (forall A, In A (gV G) -> exists r, In r (gR G) /\ rvar r = A) ->
  (forall a, In a (gSg G) -> exists r, In r (gR G) /\ In (Tm a) (rrhs r)) ->
  (exists r R', gR G = r :: R' /\ rvar r = gS G) ->
  ~ In eps (gV G) -> ~ In eps (gSg G) ->
  ((exists r, In r (gR G) /\ rrhs r = []) -> eps = c_eps) ->
  exists G', parse_cfg_lines eps (print_cfg_lines G) = Some G' /\
    seteq (gV G') (gV G) /\ seteq (gSg G') (gSg G) /\ gS G' = gS G /\
    map rule_key (gR G') = CFGTextProofs.group_by (ordered_variables G) (map rule_key (gR G)) /\
    Permutation (map rule_key (gR G')) (map rule_key (gR G)) /\
    map rid (gR G') = seq 0 (length (gR G')).
Proof. exact CFGTextProofs.print_parse_cfg_lines. Qed.

(* with the parser's own choice of the epsilon character ('ε' if it occurs in the text, else '_') *)
Theorem C16_cfg_print_parse_text : forall G : cfg,
  (forall A, In A (gV G) -> 165 <= A <= 190) ->
  (forall a, In a (gSg G) -> 197 <= a <= 222) ->
  cfg_wf G ->
  (forall A, In A (gV G) -> exists r, In r (gR G) /\ rvar r = A) ->
  (forall a, In a (gSg G) -> exists r, In r (gR G) /\ In (Tm a) (rrhs r)) ->
  (exists r R', gR G = r :: R' /\ rvar r = gS G) ->
  exists G', parse_cfg_text (print_cfg_lines G) = Some G' /\
    seteq (gV G') (gV G) /\ seteq (gSg G') (gSg G) /\ gS G' = gS G /\
    map rule_key (gR G') = CFGTextProofs.group_by (ordered_variables G) (map rule_key (gR G)) /\
    Permutation (map rule_key (gR G')) (map rule_key (gR G)) /\
    map rid (gR G') = seq 0 (length (gR G')).
Proof. exact CFGTextProofs.print_parse_cfg_text. Qed.

(* cfg_print_simple does not raise on such a grammar *)
Theorem C16_cfg_print_simple_some : forall G : cfg,
  (forall A, In A (gV G) -> 165 <= A <= 190) -> (forall a, In a (gSg G) -> 197 <= a <= 222) ->
  print_cfg_simple G = Some (print_cfg_lines G).
Proof. exact CFGTextProofs.print_cfg_simple_some. Qed.

Print Assumptions C16_regexp_simple_print_parse.
Print Assumptions C16_regexp_simple_print_parse_lassoc.
Print Assumptions C16_regexp_simple_print_parse_left_normal.
Print Assumptions C16_regexp_lassoc_print.
Print Assumptions C16_regexp_lassoc_lang.
Print Assumptions C16_regexp_lassoc_normal.
Print Assumptions C16_regexp_full_injective.
Print Assumptions C16_regexp_str_simple.
Print Assumptions C16_cfg_print_parse_lines.
Print Assumptions C16_cfg_print_parse_text.
Print Assumptions C16_cfg_print_simple_some.
