(* Design note (calibration sketch, no axioms): the core of the language-preservation argument for
   cfg_remove_epsilon_rules_in_place (C08, phase 2), on derivation trees.
   Parameters of the sketch (to be discharged by separate lemmas in the real development):
   - the nullable set N is characterised by  In A N <-> A derives the empty word;
   - the rule list R' is characterised by the membership predicate of the Python loop:
       (A, y) in R'  <->  exists x, (A, x) in R /\ y is x with some occurrences of nullable variables deleted
                          /\ ~ (y = [] /\ In A N /\ A <> S).                                        *)
From Coq Require Import List Bool Arith Lia.
Import ListNotations.

Record gsym := { is_var : bool; gname : nat }.
Definition T (a : nat) := {| is_var := false; gname := a |}.
Definition V (x : nat) := {| is_var := true; gname := x |}.
Definition word := list nat.
Definition rules := list (nat * list gsym).

Inductive tree (R : rules) : gsym -> word -> Prop :=
| t_term a : tree R (T a) [a]
| t_var A rhs w : In (A, rhs) R -> forest R rhs w -> tree R (V A) w
with forest (R : rules) : list gsym -> word -> Prop :=
| f_nil : forest R [] []
| f_cons s ss u v : tree R s u -> forest R ss v -> forest R (s :: ss) (u ++ v).
Scheme tree_ind2 := Induction for tree Sort Prop
  with forest_ind2 := Induction for forest Sort Prop.
Combined Scheme tree_forest_ind from tree_ind2, forest_ind2.

(* y is obtained from x by deleting some occurrences of variables in N *)
Inductive sub_del (N : list nat) : list gsym -> list gsym -> Prop :=
| sd_nil : sub_del N [] []
| sd_keep s x y : sub_del N x y -> sub_del N (s :: x) (s :: y)
| sd_drop A x y : In A N -> sub_del N x y -> sub_del N (V A :: x) y.

Section EpsElim.
  Variable R R' : rules.
  Variable S : nat.
  Variable N : list nat.
  Hypothesis N_spec : forall A, In A N <-> tree R (V A) [].
  Hypothesis R'_spec : forall A y, In (A, y) R' <->
      exists x, In (A, x) R /\ sub_del N x y /\ ~ (y = [] /\ In A N /\ A <> S).

  (* soundness: every tree of the new grammar is a tree of the old one *)
  Lemma sub_del_forest x y : sub_del N x y -> forall w, forest R y w -> forest R x w.
  Proof.
    induction 1 as [|s x y _ IH|A x y HA _ IH]; intros w Hw.
    - exact Hw.
    - inversion Hw; subst. apply f_cons; auto.
    - change w with ([] ++ w). apply f_cons; [apply N_spec; exact HA | apply IH; exact Hw].
  Qed.

  Lemma sound : (forall s w, tree R' s w -> tree R s w) /\ (forall x w, forest R' x w -> forest R x w).
  Proof.
    apply tree_forest_ind.
    - intros a. apply t_term.
    - intros A rhs w Hin _ IH. apply R'_spec in Hin. destruct Hin as (x & Hx & Hsd & _).
      apply t_var with x; auto. eapply sub_del_forest; eauto.
    - apply f_nil.
    - intros s ss u v _ IHt _ IHf. apply f_cons; auto.
  Qed.

  (* completeness on non-empty yields *)
  Lemma tree_term_nonempty s w : tree R s w -> is_var s = false -> w <> [].
  Proof. intros H. inversion H; subst; cbn; congruence. Qed.

  Lemma complete :
    (forall s w, tree R s w -> w <> [] -> tree R' s w) /\
    (forall x w, forest R x w -> exists y, sub_del N x y /\ forest R' y w /\ (w <> [] -> y <> [])).
  Proof.
    apply tree_forest_ind.
    - intros a _. apply t_term.
    - intros A rhs w Hin _ IH Hne. destruct IH as (y & Hsd & Hf & Hy).
      apply t_var with y; auto. apply R'_spec. exists rhs. repeat split; auto.
      intros (Hy0 & _). apply Hy; auto.
    - exists []. repeat split; [constructor | constructor | congruence].
    - intros s ss u v Ht IHt _ (y & Hsd & Hf & Hy).
      destruct u as [|a u'].
      + (* empty yield: s must be a nullable variable; drop it *)
        destruct s as [[|] n].
        * exists y. repeat split.
          -- apply (sd_drop N n). { apply N_spec. exact Ht. } exact Hsd.
          -- exact Hf.
          -- cbn. exact Hy.
        * exfalso. eapply tree_term_nonempty; eauto.
      + exists (s :: y). repeat split.
        * apply sd_keep; exact Hsd.
        * apply f_cons; auto. apply IHt. discriminate.
        * intros _. discriminate.
  Qed.

  (* the empty word: kept exactly as the rule S -> epsilon *)
  Lemma forest_all_nullable_gen x w : forest R x w -> w = [] -> sub_del N x [].
  Proof.
    induction 1 as [|s ss u v Ht Hf IH]; intros Hw.
    - constructor.
    - apply app_eq_nil in Hw. destruct Hw as [-> ->].
      destruct s as [[|] n].
      + apply (sd_drop N n); [apply N_spec; exact Ht | apply IH; reflexivity].
      + exfalso. eapply tree_term_nonempty; eauto.
  Qed.
  Lemma forest_all_nullable x : forest R x [] -> sub_del N x [].
  Proof. intros H. eapply forest_all_nullable_gen; eauto. Qed.

  Theorem eps_elim_lang : forall w, tree R' (V S) w <-> tree R (V S) w.
  Proof.
    intros w. split.
    - apply (proj1 sound).
    - intros H. destruct w as [|a w].
      + inversion H as [|A rhs w' Hin Hf]; subst.
        apply t_var with []; [|constructor].
        apply R'_spec. exists rhs. repeat split; auto.
        * apply forest_all_nullable; exact Hf.
        * intros (_ & _ & Hneq). apply Hneq; reflexivity.
      + apply (proj1 complete); auto. discriminate.
  Qed.

  (* postcondition: no epsilon rule except for the start variable *)
  Lemma sub_del_nil_forest x y : sub_del N x y -> y = [] -> forest R x [].
  Proof.
    induction 1 as [|s x0 y0 _ _|B x0 y0 HB _ IH]; intros Hy.
    - constructor.
    - discriminate.
    - change (@nil nat) with (@nil nat ++ []). apply f_cons; [apply N_spec; exact HB | apply IH; exact Hy].
  Qed.

  Theorem eps_elim_post : forall A, In (A, []) R' -> A = S.
  Proof.
    intros A Hin. apply R'_spec in Hin. destruct Hin as (x & Hx & Hsd & Hnot).
    destruct (Nat.eq_dec A S) as [|Hne]; auto. exfalso. apply Hnot. repeat split; auto.
    apply N_spec. apply t_var with x; auto. eapply sub_del_nil_forest; eauto.
  Qed.
End EpsElim.
