(* placeholder *)
From GT Require Import Base.Prelude Model.NFA Model.NFAOps.
