(* Design note (calibration sketch, no axioms): language of the nfa_repetition construction (C18/C06):
   a fresh initial accepting state with an epsilon move to the old initial state, and epsilon moves from
   every accepting state back to the old initial state.  States of the result are `option St`
   (None = the fresh state); a = None is an epsilon move. *)
From Coq Require Import List.
Import ListNotations.

Section Star.
  Variable St Sym : Type.
  Definition word := list Sym.
  Variable step : St -> option Sym -> St -> Prop.
  Variable q0 : St.
  Variable F : St -> Prop.

  Inductive reach {X} (stp : X -> option Sym -> X -> Prop) : X -> word -> X -> Prop :=
  | r_nil q : reach stp q [] q
  | r_eps p q w r : stp p None q -> reach stp q w r -> reach stp p w r
  | r_sym p a q w r : stp p (Some a) q -> reach stp q w r -> reach stp p (a :: w) r.

  Definition L (w : word) : Prop := exists qf, reach step q0 w qf /\ F qf.
  Inductive star (M : word -> Prop) : word -> Prop :=
  | star_nil : star M []
  | star_app u v : M u -> star M v -> star M (u ++ v).

  Definition step' (p : option St) (a : option Sym) (q : option St) : Prop :=
    match p, q with
    | Some p, Some q => step p a q \/ (a = None /\ F p /\ q = q0)
    | None, Some q => a = None /\ q = q0
    | _, None => False
    end.
  Definition F' (q : option St) : Prop := match q with None => True | Some q => F q end.
  Definition L' (w : word) : Prop := exists qf, reach step' None w qf /\ F' qf.

  Lemma reach_app {X} (stp : X -> option Sym -> X -> Prop) p u q : reach stp p u q -> forall v r, reach stp q v r -> reach stp p (u ++ v) r.
  Proof. induction 1; intros v0 r0 H2; cbn; [auto | eapply r_eps; eauto | eapply r_sym; eauto]. Qed.

  Lemma lift p w q : reach step p w q -> reach step' (Some p) w (Some q).
  Proof. induction 1; [constructor | eapply r_eps; eauto; cbn; auto | eapply r_sym; eauto; cbn; auto]. Qed.

  Lemma from_None w f : reach step' None w f -> (w = [] /\ f = None) \/ reach step' (Some q0) w f.
  Proof.
    intros H. inversion H as [|p q w' r Hs Hr|p a q w' r Hs Hr]; subst; auto.
    - destruct q as [q|]; cbn in Hs; [|contradiction]. destruct Hs as [_ ->]. auto.
    - destruct q as [q|]; cbn in Hs; [|contradiction]. destruct Hs as [Hs _]. discriminate.
  Qed.

  Theorem star_sub w : star L w -> L' w.
  Proof.
    induction 1 as [|u v (qf & Hu & Hf) _ (f' & Hv & Hf')].
    - exists None. split; [constructor|exact I].
    - assert (Hstart : reach step' None u (Some qf)).
      { eapply r_eps; [|apply lift; exact Hu]. cbn. auto. }
      destruct (from_None _ _ Hv) as [[-> ->]|Hv'].
      + exists (Some qf). rewrite app_nil_r. auto.
      + exists f'. split; auto. eapply reach_app; [exact Hstart|].
        eapply r_eps; [|exact Hv']. cbn. right. auto.
  Qed.

  Lemma from_Some : forall p' w f, reach step' p' w f -> forall p, p' = Some p -> F' f ->
      exists u v, w = u ++ v /\ (exists qf, reach step p u qf /\ F qf) /\ star L v.
  Proof.
    induction 1 as [q|p1 q1 w r Hs Hr IH|p1 a q1 w r Hs Hr IH]; intros p -> Hf.
    - exists [], []. repeat split; [exists p; split; [constructor|exact Hf] | constructor].
    - destruct q1 as [q1|]; cbn in Hs; [|contradiction].
      destruct Hs as [Hs|(_ & HFp & ->)].
      + destruct (IH q1 eq_refl Hf) as (u & v & -> & (qf & Hu & Hqf) & Hv).
        exists u, v. repeat split; auto. exists qf. split; auto. eapply r_eps; eauto.
      + destruct (IH q0 eq_refl Hf) as (u & v & -> & (qf & Hu & Hqf) & Hv).
        exists [], (u ++ v). repeat split; auto.
        * exists p. split; [constructor|exact HFp].
        * apply star_app; auto. exists qf; auto.
    - destruct q1 as [q1|]; cbn in Hs; [|contradiction].
      destruct Hs as [Hs|(Hd & _)]; [|discriminate].
      destruct (IH q1 eq_refl Hf) as (u & v & -> & (qf & Hu & Hqf) & Hv).
      exists (a :: u), v. repeat split; auto. exists qf. split; auto. eapply r_sym; eauto.
  Qed.

  Theorem sub_star w : L' w -> star L w.
  Proof.
    intros (f & Hr & Hf). destruct (from_None _ _ Hr) as [[-> _]|Hr'].
    - constructor.
    - destruct (from_Some _ _ _ Hr' q0 eq_refl Hf) as (u & v & -> & Hu & Hv).
      apply star_app; auto.
  Qed.

  Theorem nfa_star_lang w : L' w <-> star L w.
  Proof. split; [apply sub_star | apply star_sub]. Qed.
End Star.
