(* Design note, not part of the machinery: the specification-level definitions of DESIGN.md §6
   and the *shape* of the main theorems, type-checked.  Model functions do not exist yet, so
   inside each Section they are Variables; the Definitions `…_statement : Prop` are what the
   files theories/Properties/Cxx.v will state about the real models.  Nothing here is an axiom:
   the file contains only Definitions and Inductives (Section variables are discharged). *)
From Coq Require Import List Bool Arith Lia Permutation.
Import ListNotations.
Set Implicit Arguments.

Definition sym := nat.
Definition word := list sym.
Definition word_over (Sg : list sym) (w : word) : Prop := Forall (fun a => In a Sg) w.
Definition seteq {A} (l1 l2 : list A) : Prop := forall x, In x l1 <-> In x l2.

(* ------------------------------------------------------------------ DFA / NFA (C01, C03, C04, C14, C20) *)
Section Automata.
  Variable St : Type.

  Record dfa := { dQ : list St; dSg : list sym; dDelta : list ((St * sym) * St); dq0 : St; dF : list St }.
  Definition dstep (D : dfa) (p : St) (a : sym) (q : St) : Prop := In ((p, a), q) (dDelta D).

  Inductive drun (D : dfa) : St -> word -> St -> Prop :=
  | drun_nil q : drun D q [] q
  | drun_cons p a q w r : dstep D p a q -> drun D q w r -> drun D p (a :: w) r.
  Definition dfa_lang (D : dfa) (w : word) : Prop := exists qf, drun D (dq0 D) w qf /\ In qf (dF D).

  (* the class invariant of DFA._check_validity, as a Prop (the model has a boolean mirror) *)
  Definition dfa_wf (D : dfa) : Prop :=
    In (dq0 D) (dQ D) /\ incl (dF D) (dQ D) /\
    (forall p a q, dstep D p a q -> In p (dQ D) /\ In a (dSg D) /\ In q (dQ D)) /\
    (forall p a q q', dstep D p a q -> dstep D p a q' -> q = q') /\
    (forall p a, In p (dQ D) -> In a (dSg D) -> exists q, dstep D p a q).

  Record nfa := { nQ : list St; nSg : list sym; nDelta : list ((St * sym) * list St); nq0 : St; nF : list St; neps : sym }.
  Definition nstep (N : nfa) (p : St) (a : sym) (q : St) : Prop := exists Q1, In ((p, a), Q1) (nDelta N) /\ In q Q1.
  Inductive eps_star (N : nfa) : St -> St -> Prop :=
  | es_refl q : eps_star N q q
  | es_step p q r : nstep N p (neps N) q -> eps_star N q r -> eps_star N p r.
  Inductive nreach (N : nfa) : St -> word -> St -> Prop :=
  | nr_nil q : nreach N q [] q
  | nr_eps p q w r : nstep N p (neps N) q -> nreach N q w r -> nreach N p w r
  | nr_sym p a q w r : a <> neps N -> nstep N p a q -> nreach N q w r -> nreach N p (a :: w) r.
  Definition nfa_lang (N : nfa) (w : word) : Prop := exists qf, nreach N (nq0 N) w qf /\ In qf (nF N).
  Definition nfa_wf (N : nfa) : Prop :=
    In (nq0 N) (nQ N) /\ incl (nF N) (nQ N) /\ ~ In (neps N) (nSg N) /\
    (forall p a q, nstep N p a q -> In p (nQ N) /\ (In a (nSg N) \/ a = neps N) /\ In q (nQ N)).

  (* Myhill-Nerode equivalence of states, distinguishability, minimality (C04) *)
  Definition accepts_from (D : dfa) (q : St) (w : word) : Prop := exists qf, drun D q w qf /\ In qf (dF D).
  Definition mn_equiv (D : dfa) (p q : St) : Prop := forall w, word_over (dSg D) w -> (accepts_from D p w <-> accepts_from D q w).
  Definition pairwise_distinguishable (D : dfa) : Prop := forall p q, In p (dQ D) -> In q (dQ D) -> mn_equiv D p q -> p = q.
  Definition reachable (D : dfa) (q : St) : Prop := exists w, word_over (dSg D) w /\ drun D (dq0 D) w q.
End Automata.

Definition lang_equiv_on (Sg : list sym) (L1 L2 : word -> Prop) : Prop := forall w, word_over Sg w -> (L1 w <-> L2 w).

Section C01_C03_C04_shapes.
  Variable dfa_accepts : dfa nat -> word -> option bool.
  Variable nfa_accepts : nfa nat -> word -> bool.
  Variable eclose : (list nat -> option (nat * list nat)) -> nat -> nfa nat -> list nat -> option (list nat).
  Definition pick_ok {A} (pick : list A -> option (A * list A)) : Prop :=
    pick [] = None /\ forall l, l <> [] -> exists x r, pick l = Some (x, r) /\ (forall y, In y l <-> y = x \/ In y r) /\ length r < length l.

  Definition C01_dfa_statement : Prop := forall D w, dfa_wf D -> word_over (dSg D) w ->
      exists b, dfa_accepts D w = Some b /\ (b = true <-> dfa_lang D w).
  Definition C01_eclose_statement : Prop := forall pick N S0, pick_ok pick -> nfa_wf N -> incl S0 (nQ N) ->
      exists r, eclose pick (S (length (nQ N))) N S0 = Some r /\ forall q, In q r <-> exists s, In s S0 /\ eps_star N s q.
  Definition C01_nfa_statement : Prop := forall N w, nfa_wf N -> word_over (nSg N) w ->
      (nfa_accepts N w = true <-> nfa_lang N w).

  Variable nfa_to_dfa : (list (list nat) -> option (list nat * list (list nat))) -> nat -> nfa nat -> option (dfa (list nat)).
  Definition C03_statement : Prop := forall pick fuel N D, pick_ok pick -> nfa_wf N -> nfa_to_dfa pick fuel N = Some D ->
      dfa_wf D /\ seteq (dSg D) (nSg N) /\ lang_equiv_on (nSg N) (dfa_lang D) (nfa_lang N) /\
      (forall q, In q (dq0 D) <-> eps_star N (nq0 N) q) /\
      (forall S, In S (dQ D) -> reachable D S).
  Definition C03_termination_statement : Prop := forall pick N, pick_ok pick -> nfa_wf N ->
      exists D, nfa_to_dfa pick (S (2 ^ length (nQ N))) N = Some D.

  (* one statement shape for the three minimisers; `order` = the list order in which Q (and Sigma) reach the routine *)
  Variable minimise : (list (list nat * sym) -> option ((list nat * sym) * list (list nat * sym))) -> nat -> dfa nat -> option (dfa (list nat)).
  Definition C04_statement : Prop := forall pick fuel D D', pick_ok pick -> dfa_wf D -> minimise pick fuel D = Some D' ->
      dfa_wf D' /\ seteq (dSg D') (dSg D) /\ lang_equiv_on (dSg D) (dfa_lang D') (dfa_lang D) /\
      pairwise_distinguishable D' /\
      (* states of D' are exactly the MN classes of all states of D *)
      (forall C, In C (dQ D') -> C <> [] /\ incl C (dQ D) /\ forall p q, In p C -> In q (dQ D) -> (In q C <-> mn_equiv D p q)) /\
      (forall p, In p (dQ D) -> exists C, In C (dQ D') /\ In p C).
  Definition C04_minimal_statement : Prop := forall pick fuel D D', pick_ok pick -> dfa_wf D -> (forall q, In q (dQ D) -> reachable D q) ->
      minimise pick fuel D = Some D' -> NoDup (dQ D') ->
      forall (D2 : dfa nat), dfa_wf D2 -> seteq (dSg D2) (dSg D) -> NoDup (dQ D2) ->
        lang_equiv_on (dSg D) (dfa_lang D2) (dfa_lang D) -> length (dQ D') <= length (dQ D2).
  Definition C04_order_statement : Prop := forall pick pick' fuel D1 D2 M1 M2, pick_ok pick -> pick_ok pick' -> dfa_wf D1 ->
      Permutation (dQ D1) (dQ D2) -> Permutation (dSg D1) (dSg D2) -> Permutation (dDelta D1) (dDelta D2) ->
      dq0 D1 = dq0 D2 -> Permutation (dF D1) (dF D2) ->
      minimise pick fuel D1 = Some M1 -> minimise pick' fuel D2 = Some M2 ->
      lang_equiv_on (dSg D1) (dfa_lang M1) (dfa_lang M2) /\ (forall C, (exists C1, In C1 (dQ M1) /\ seteq C C1) <-> (exists C2, In C2 (dQ M2) /\ seteq C C2)).

  (* C20 *)
  Definition iso_reach (D1 D2 : dfa nat) : Prop := exists f : nat -> nat,
      f (dq0 D1) = dq0 D2 /\
      (forall p, reachable D1 p -> reachable D2 (f p)) /\
      (forall q, reachable D2 q -> exists p, reachable D1 p /\ f p = q) /\
      (forall p p', reachable D1 p -> reachable D1 p' -> f p = f p' -> p = p') /\
      (forall p a q, reachable D1 p -> dstep D1 p a q -> dstep D2 (f p) a (f q)) /\
      (forall p, reachable D1 p -> (In p (dF D1) <-> In (f p) (dF D2))).
  Variable iso1 : (list (nat * nat) -> option ((nat * nat) * list (nat * nat))) -> nat -> dfa nat -> dfa nat -> option bool.
  Definition C20_statement : Prop := forall pick fuel D1 D2 b, pick_ok pick -> dfa_wf D1 -> dfa_wf D2 -> seteq (dSg D1) (dSg D2) ->
      iso1 pick fuel D1 D2 = Some b -> (b = true <-> iso_reach D1 D2).
  Definition C20_termination_statement : Prop := forall pick D1 D2, pick_ok pick -> dfa_wf D1 -> dfa_wf D2 -> seteq (dSg D1) (dSg D2) ->
      iso1 pick (S (length (dQ D1) * length (dQ D2))) D1 D2 <> None.
End C01_C03_C04_shapes.

(* ------------------------------------------------------------------ regular expressions (C05, C06) *)
Inductive re := Zero | One | Sym (a : sym) | Plus (r s : re) | Cat (r s : re) | Star (r : re).
Inductive re_lang : re -> word -> Prop :=
| L_one : re_lang One []
| L_sym a : re_lang (Sym a) [a]
| L_plus_l r s w : re_lang r w -> re_lang (Plus r s) w
| L_plus_r r s w : re_lang s w -> re_lang (Plus r s) w
| L_cat r s u v : re_lang r u -> re_lang s v -> re_lang (Cat r s) (u ++ v)
| L_star_nil r : re_lang (Star r) []
| L_star_app r u v : re_lang r u -> re_lang (Star r) v -> re_lang (Star r) (u ++ v).
Fixpoint re_nodes (r : re) : nat :=
  match r with Zero | One | Sym _ => 1 | Star r => S (re_nodes r) | Plus r s | Cat r s => S (re_nodes r + re_nodes s) end.

Section C05_C06_shapes.
  Variable acc : re -> word -> bool.
  Variable simplify : re -> re.
  Definition C05_match_statement : Prop := forall r w, acc r w = true <-> re_lang r w.
  Definition C05_simplify_statement : Prop := forall r, (forall w, re_lang (simplify r) w <-> re_lang r w) /\ re_nodes (simplify r) <= re_nodes r.
  Variable re_to_nfa : re -> nfa nat.
  Definition C06_re_to_nfa_statement : Prop := forall r, nfa_wf (re_to_nfa r) /\ forall w, nfa_lang (re_to_nfa r) w <-> re_lang r w.
  Variable dfa_to_regexp : list nat (* rip order *) -> dfa nat -> option re.   (* None = the start/accept name clash the code asserts on *)
  Definition C06_dfa_to_regexp_statement : Prop := forall order D r, dfa_wf D -> Permutation order (dQ D) -> NoDup (dQ D) ->
      dfa_to_regexp order D = Some r -> lang_equiv_on (dSg D) (re_lang r) (dfa_lang D).
End C05_C06_shapes.

(* ------------------------------------------------------------------ context-free grammars (C07, C08) *)
Record gsym := { is_var : bool; gname : nat }.
Definition T (a : nat) := {| is_var := false; gname := a |}.
Definition V (x : nat) := {| is_var := true; gname := x |}.
Record cfg := { gV : list nat; gSg : list nat; gR : list (nat * list gsym); gS : nat }.
Inductive gstep (G : cfg) : list gsym -> list gsym -> Prop :=
| gstep_intro u A rhs v : In (A, rhs) (gR G) -> gstep G (u ++ V A :: v) (u ++ rhs ++ v).
Inductive gstar (G : cfg) : list gsym -> list gsym -> Prop :=
| gstar_refl x : gstar G x x
| gstar_step x y z : gstep G x y -> gstar G y z -> gstar G x z.
Definition cfg_lang (G : cfg) (w : word) : Prop := gstar G [V (gS G)] (map T w).
Definition cfg_wf (G : cfg) : Prop :=
  (forall A rhs, In (A, rhs) (gR G) -> In A (gV G) /\ forall s, In s rhs -> if is_var s then In (gname s) (gV G) else In (gname s) (gSg G)) /\
  (forall x, In x (gV G) -> ~ In x (gSg G)).              (* names of variables and terminals are disjoint *)
Definition rule_cnf (rhs : list gsym) : Prop :=
  rhs = [] \/ (exists a, rhs = [T a]) \/ (exists B C, rhs = [V B; V C]).
Definition is_chomsky (G : cfg) : Prop :=
  (forall A rhs, In (A, rhs) (gR G) -> rule_cnf rhs /\ ~ In (V (gS G)) rhs /\ (rhs = [] -> A = gS G)).
Definition subword (w : word) (i j : nat) : word := firstn (S j - i) (skipn i w).   (* w[i..j] inclusive *)

Section C07_C08_shapes.
  Variable cyk : cfg -> word -> nat -> nat -> list nat.
  Variable cfg_accepts : cfg -> word -> bool.
  Variable to_chomsky : list nat (* iteration order of V in unit elimination *) -> cfg -> cfg.
  Definition C07_cell_statement : Prop := forall G w i j A, cfg_wf G -> is_chomsky G -> i <= j -> j < length w ->
      (In A (cyk G w i j) <-> In A (gV G) /\ gstar G [V A] (map T (subword w i j))).
  Definition C07_accepts_statement : Prop := forall G w, cfg_wf G -> (cfg_accepts G w = true <-> cfg_lang G w).
  Definition C08_statement : Prop := forall order G, cfg_wf G -> Permutation order (gV G) ->
      let G' := to_chomsky order G in
      cfg_wf G' /\ is_chomsky G' /\ seteq (gSg G') (gSg G) /\ incl (gV G) (gV G') /\ forall w, cfg_lang G' w <-> cfg_lang G w.
End C07_C08_shapes.

(* ------------------------------------------------------------------ PDA (C09, C10) *)
Record pda := { pQ : list nat; pSg : list sym; pGm : list sym; pDelta : list ((nat * sym * sym) * (nat * sym)); pq0 : nat; pF : list nat; peps : sym }.
Definition pconf := (nat * list sym)%type.                       (* stack top at the END, as stack[-1] *)
Definition pop_push (eps u v : sym) (st st' : list sym) : Prop :=
  exists base, st = (if Nat.eqb u eps then base else base ++ [u]) /\ st' = (if Nat.eqb v eps then base else base ++ [v]).
Definition pmove (P : pda) (a : sym) (c c' : pconf) : Prop :=
  exists u v, In ((fst c, a, u), (fst c', v)) (pDelta P) /\ pop_push (peps P) u v (snd c) (snd c').
Inductive preach (P : pda) : pconf -> word -> pconf -> Prop :=
| pr_nil c : preach P c [] c
| pr_eps c c' w c'' : pmove P (peps P) c c' -> preach P c' w c'' -> preach P c w c''
| pr_sym c a c' w c'' : a <> peps P -> pmove P a c c' -> preach P c' w c'' -> preach P c (a :: w) c''.
Definition pda_lang (P : pda) (w : word) : Prop := exists q st, preach P (pq0 P, []) w (q, st) /\ In q (pF P).
Definition eps_closure_fits (P : pda) (R : list pconf) (limit : nat) : Prop :=
  exists C : list pconf, NoDup C /\ length C <= limit /\ forall c, (exists r, In r R /\ preach P r [] c) -> In c C.

Section C09_shapes.
  (* returns (verdict, some closure was truncated) *)
  Variable pda_accepts : (list pconf -> option (pconf * list pconf)) -> nat -> pda -> word -> bool * bool.
  Definition C09_sound_statement : Prop := forall pick limit P w, pick_ok pick ->
      fst (pda_accepts pick limit P w) = true -> pda_lang P w.
  Definition C09_complete_statement : Prop := forall pick limit P w, pick_ok pick -> word_over (pSg P) w ->
      snd (pda_accepts pick limit P w) = false -> (pda_lang P w -> fst (pda_accepts pick limit P w) = true).
  (* and: truncation cannot happen when every closure along w fits the limit (stated on the model's internal closure calls) *)
End C09_shapes.

(* ------------------------------------------------------------------ TM (C11) *)
Record tm := { tQ : list nat; tSg : list sym; tGm : list sym; tDelta : list ((nat * sym) * (nat * sym * bool (* true = L *))); tq0 : nat; tacc : nat; trej : nat; tblank : sym }.
Definition tconf := (nat * list sym * nat)%type.
Definition halting (M : tm) (q : nat) : Prop := q = tacc M \/ q = trej M.
Definition tm_init (M : tm) (w : word) : tconf := (tq0 M, (if w then [tblank M] else w), 0).
Section TMstep.
  Variable lookup : tm -> nat -> sym -> option (nat * sym * bool).
  Definition write (tape : list sym) (h : nat) (b : sym) : list sym := firstn h tape ++ b :: skipn (S h) tape.
  Definition tm_step_spec (M : tm) (c c' : tconf) : Prop :=
    let '(p, tape, h) := c in
    let a := nth h tape (tblank M) in
    let '(q, b, goleft) := match lookup M p a with Some x => x | None => (trej M, a, false) end in
    let h' := if goleft then Nat.pred h else S h in
    let tape' := write tape h b in
    c' = (q, (if Nat.eqb h' (length tape') then tape' ++ [tblank M] else tape'), h').
End TMstep.
(* C11 statement shape: tm_accepts M w k = Some true  <->  exists i, 1 <= i <= k /\ state (iter tm_step i init) = accept /\ no halting state at 1..i-1 ;
   likewise Some false / reject ; None otherwise ; trace clauses ; monotonicity in k.  (q0 halting: separate lemma, F11.) *)

(* ================================================================== second part: C02, C10, C12, C14, C15, C16/C17, C18, C19 *)

Definition up_to (n : nat) (w : word) : Prop := length w <= n.

Section C02_shapes.
  (* one statement per kind; `accepts` is the *model* acceptance test, already tied to the spec language by C01/C05/C07/C09/C11 *)
  Variable dfa_words : dfa nat -> nat -> list word.
  Variable nfa_words : nfa nat -> nat -> list word.
  Variable re_words : re -> nat -> list word.
  Variable cfg_words : cfg -> nat -> list word.
  Definition C02_dfa_statement : Prop := forall D n w, dfa_wf D -> (In w (dfa_words D n) <-> up_to n w /\ word_over (dSg D) w /\ dfa_lang D w).
  Definition C02_nfa_statement : Prop := forall N n w, nfa_wf N -> (In w (nfa_words N n) <-> up_to n w /\ word_over (nSg N) w /\ nfa_lang N w).
  Definition C02_re_statement : Prop := forall r n w, In w (re_words r n) <-> up_to n w /\ re_lang r w.
  Definition C02_cfg_statement : Prop := forall G n w, cfg_wf G -> (In w (cfg_words G n) <-> up_to n w /\ cfg_lang G w).
  (* PDA: both routines return (value, truncated) *)
  Variable pda_words : (list pconf -> option (pconf * list pconf)) -> nat -> pda -> nat -> list word * bool.
  Definition C02_pda_statement : Prop := forall pick limit P n w, pick_ok pick -> snd (pda_words pick limit P n) = false ->
      (In w (fst (pda_words pick limit P n)) <-> up_to n w /\ word_over (pSg P) w /\ pda_lang P w).
  (* TM: same budget k on both sides *)
  Variable tm_accepts : tm -> word -> nat -> option (option bool).       (* None = the RuntimeError of F11 *)
  Variable tm_words : tm -> nat -> nat -> list word.
  Definition C02_tm_statement : Prop := forall M n k w, (In w (tm_words M n k) <-> up_to n w /\ word_over (tSg M) w /\ tm_accepts M w k = Some (Some true)).
End C02_shapes.

(* ------------------------------------------------------------------ C10 *)
Definition pda_wf (P : pda) : Prop :=
  In (pq0 P) (pQ P) /\ incl (pF P) (pQ P) /\ ~ In (peps P) (pSg P) /\ ~ In (peps P) (pGm P) /\
  forall p a u q v, In ((p, a, u), (q, v)) (pDelta P) ->
    In p (pQ P) /\ In q (pQ P) /\ (In a (pSg P) \/ a = peps P) /\ (In u (pGm P) \/ u = peps P) /\ (In v (pGm P) \/ v = peps P).
Definition is_push_pop (P : pda) : Prop := forall p a u q v, In ((p, a, u), (q, v)) (pDelta P) ->
    (u = peps P /\ v <> peps P) \/ (u <> peps P /\ v = peps P).
Definition accepts_only_on_empty_stack (P : pda) : Prop := forall w q st, preach P (pq0 P, []) w (q, st) -> In q (pF P) -> st = [].
Section C10_shapes.
  Variable one_accept push_pop empty_stack : pda -> option pda.       (* None = marker clash the code asserts / raises on *)
  Variable pda_to_cfg : pda -> option cfg.
  Definition conv_statement (f : pda -> option pda) (post : pda -> Prop) : Prop := forall P P', pda_wf P -> f P = Some P' ->
      pda_wf P' /\ seteq (pSg P') (pSg P) /\ post P' /\ forall w, pda_lang P' w <-> pda_lang P w.
  Definition C10_one_accept_statement := conv_statement one_accept (fun P' => exists qa, pF P' = [qa]).
  Definition C10_push_pop_statement := conv_statement push_pop is_push_pop.
  Definition C10_empty_stack_statement := conv_statement empty_stack accepts_only_on_empty_stack.
  Definition C10_to_cfg_statement : Prop := forall P G, pda_wf P -> pda_to_cfg P = Some G -> cfg_wf G /\ forall w, cfg_lang G w <-> pda_lang P w.
End C10_shapes.

(* ------------------------------------------------------------------ C12: the language-comparison feedback *)
Inductive feedback := FB_ok | FB_extra (w : word) | FB_missing (w : word).
Section C12_shapes.
  Variable compare_languages : list word -> list word -> feedback.   (* answer, expected *)
  Definition C12_compare_statement : Prop := forall A1 A2,
    match compare_languages A1 A2 with
    | FB_ok => seteq A1 A2
    | FB_extra w => In w A1 /\ ~ In w A2 /\ forall v, In v A1 -> ~ In v A2 -> length w <= length v
    | FB_missing w => incl A1 A2 /\ In w A2 /\ ~ In w A1 /\ forall v, In v A2 -> ~ In v A1 -> length w <= length v
    end.
End C12_shapes.

(* ------------------------------------------------------------------ C14 *)
Section C14_shapes.
  Variable product : (bool -> bool -> bool) -> dfa nat -> dfa nat -> dfa (nat * nat).
  Definition C14_product_statement : Prop := forall op D1 D2, dfa_wf D1 -> dfa_wf D2 -> seteq (dSg D1) (dSg D2) ->
      dfa_wf (product op D1 D2) /\
      forall w, word_over (dSg D1) w -> forall b1 b2, (b1 = true <-> dfa_lang D1 w) -> (b2 = true <-> dfa_lang D2 w) ->
        (dfa_lang (product op D1 D2) w <-> op b1 b2 = true).
  Variable reverse : dfa nat -> option (nfa nat).
  Definition C14_reverse_statement : Prop := forall D N, dfa_wf D -> reverse D = Some N ->
      nfa_wf N /\ ~ In (nq0 N) (dQ D) /\ forall w, word_over (dSg D) w -> (nfa_lang N w <-> dfa_lang D (rev w)).
  Variable no_prefix : dfa nat -> nfa nat.
  Definition proper_prefix (u w : word) : Prop := exists v, v <> [] /\ w = u ++ v.
  Definition C14_no_prefix_statement : Prop := forall D w, dfa_wf D -> word_over (dSg D) w ->
      (nfa_lang (no_prefix D) w <-> dfa_lang D w /\ forall u, proper_prefix u w -> ~ dfa_lang D u).
  Variable no_extend : dfa nat -> dfa nat.
  Definition C14_no_extend_statement : Prop := forall D w, dfa_wf D -> word_over (dSg D) w ->
      (dfa_lang (no_extend D) w <-> dfa_lang D w /\ forall v, word_over (dSg D) v -> proper_prefix w v -> ~ dfa_lang D v).
  Variable language_no_prefix : list word -> list word.
  Definition C14_language_no_prefix_statement : Prop := forall L w,
      In w (language_no_prefix L) <-> In w L /\ forall u, proper_prefix u w -> ~ In u L.
End C14_shapes.

(* ------------------------------------------------------------------ C15: what a genuine witness is *)
Definition nfa_run_ok (N : nfa nat) (w : word) (run : list (nat * word)) : Prop :=
  exists qf, hd_error run = Some (nq0 N, w) /\ last run (0, [0]) = (qf, []) /\ In qf (nF N) /\
  forall i p u q v, nth_error run i = Some (p, u) -> nth_error run (S i) = Some (q, v) ->
    (u = v /\ nstep N p (neps N) q) \/ (exists a, u = a :: v /\ a <> neps N /\ nstep N p a q).
Definition pda_run_ok (P : pda) (w : word) (run : list (nat * word * list sym)) : Prop :=
  exists qf st, hd_error run = Some (pq0 P, w, []) /\ last run (0, [0], []) = (qf, [], st) /\ In qf (pF P) /\
  forall i p u s q v t, nth_error run i = Some (p, u, s) -> nth_error run (S i) = Some (q, v, t) ->
    (u = v /\ pmove P (peps P) (p, s) (q, t)) \/ (exists a, u = a :: v /\ a <> peps P /\ pmove P a (p, s) (q, t)).
Definition leftmost_step (G : cfg) (x y : list gsym) : Prop :=
  exists u A rhs v, x = u ++ V A :: v /\ y = u ++ rhs ++ v /\ In (A, rhs) (gR G) /\ Forall (fun s => is_var s = false) u.
Definition rightmost_step (G : cfg) (x y : list gsym) : Prop :=
  exists u A rhs v, x = u ++ V A :: v /\ y = u ++ rhs ++ v /\ In (A, rhs) (gR G) /\ Forall (fun s => is_var s = false) v.
Definition derivation_ok (stepR : list gsym -> list gsym -> Prop) (G : cfg) (w : word) (d : list (list gsym)) : Prop :=
  hd_error d = Some [V (gS G)] /\ last d [] = map T w /\
  forall i x y, nth_error d i = Some x -> nth_error d (S i) = Some y -> stepR x y.
Section C15_shapes.
  Variable nfa_accepts : nfa nat -> word -> bool.
  Variable nfa_simulate : (list nat -> option (nat * list nat)) -> nat -> nfa nat -> word -> option (option (list (nat * word))).  (* outer None = out of fuel *)
  Definition C15_nfa_statement : Prop := forall pick N w, pick_ok pick -> nfa_wf N -> word_over (nSg N) w ->
      exists fuel r, nfa_simulate pick fuel N w = Some r /\
        (nfa_accepts N w = true -> exists run, r = Some run /\ nfa_run_ok N w run) /\ (nfa_accepts N w = false -> r = None).
  Variable cfg_derive : bool (* leftmost? *) -> cfg -> word -> option (list (list gsym)).
  Definition C15_cfg_statement : Prop := forall G w, cfg_wf G -> is_chomsky G -> w <> [] -> cfg_lang G w ->
      (exists d, cfg_derive true G w = Some d /\ derivation_ok (leftmost_step G) G w d) /\
      (exists d, cfg_derive false G w = Some d /\ derivation_ok (rightmost_step G) G w d).
End C15_shapes.

(* ------------------------------------------------------------------ C16 / C17: token-level text *)
Definition chr := nat.
Definition token := list chr.
Definition line := list token.
Definition text := list line.
Inductive perr := E_duplicate_key | E_duplicate_entry | E_empty_states | E_incomplete_transition | E_bad_state_label | E_bad_label
                | E_undeclared_state | E_undeclared_symbol | E_no_initial | E_multiple_initial | E_not_deterministic | E_not_total
                | E_no_value | E_multiple_values | E_bad_symbol | E_invariant.
Section C16_C17_shapes.
  Variable tok_of_state : nat -> token.            (* harness-side naming, injective, images match \w+ and are not keywords *)
  Variable tok_of_sym : nat -> token.              (* single \w characters *)
  Variable print_dfa : dfa nat -> text.
  Variable parse_dfa : text -> dfa nat + perr.
  Definition dfa_same (D D' : dfa nat) : Prop :=
    seteq (dQ D) (dQ D') /\ seteq (dSg D) (dSg D') /\ seteq (dDelta D) (dDelta D') /\ dq0 D = dq0 D' /\ seteq (dF D) (dF D').
  Definition C16_dfa_statement : Prop := forall D, dfa_wf D -> exists D', parse_dfa (print_dfa D) = inl D' /\ dfa_same D D'.
  (* a layout of D: any text whose lines are, in any order, the declaration lines (each at most once; `states` and
     `input_symbols` optional when derivable from the transitions), transition lines covering exactly delta with labels grouped
     arbitrarily, comment lines and blank lines *)
  Variable layout_of : dfa nat -> text -> Prop.
  Definition C17_layout_statement : Prop := forall D t, dfa_wf D -> layout_of D t -> exists D', parse_dfa t = inl D' /\ dfa_same D D'.
  Definition C17_invariant_statement : Prop := forall t D, parse_dfa t = inl D -> dfa_wf D.
End C16_C17_shapes.

(* ------------------------------------------------------------------ C18 *)
Definition lang_union (L1 L2 : word -> Prop) w := L1 w \/ L2 w.
Definition lang_concat (L1 L2 : word -> Prop) w := exists u v, w = u ++ v /\ L1 u /\ L2 v.
Inductive lang_star (L : word -> Prop) : word -> Prop :=
| ls_nil : lang_star L []
| ls_app u v : L u -> lang_star L v -> lang_star L (u ++ v).
Definition disjoint {A} (l1 l2 : list A) : Prop := forall x, In x l1 -> In x l2 -> False.
Section C18_shapes.
  (* gen = value of the shared IdentifierGenerator counter = the call history; result carries the new counter *)
  Variable nfa_union : nat -> nfa nat -> nfa nat -> option (nfa nat * nat).
  Variable nfa_concat : nfa nat -> nfa nat -> option (nfa nat).
  Variable nfa_star : nat -> nfa nat -> option (nfa nat * nat).
  Definition C18_union_statement : Prop := forall gen N1 N2, nfa_wf N1 -> nfa_wf N2 -> disjoint (nQ N1) (nQ N2) ->
      exists N gen', nfa_union gen N1 N2 = Some (N, gen') /\ nfa_wf N /\ ~ In (nq0 N) (nQ N1 ++ nQ N2) /\
        forall w, word_over (nSg N1 ++ nSg N2) w -> (nfa_lang N w <-> lang_union (nfa_lang N1) (nfa_lang N2) w).
  Definition C18_concat_statement : Prop := forall N1 N2, nfa_wf N1 -> nfa_wf N2 -> disjoint (nQ N1) (nQ N2) ->
      exists N, nfa_concat N1 N2 = Some N /\ nfa_wf N /\
        forall w, word_over (nSg N1 ++ nSg N2) w -> (nfa_lang N w <-> lang_concat (nfa_lang N1) (nfa_lang N2) w).
  Definition C18_star_statement : Prop := forall gen N1, nfa_wf N1 ->
      exists N gen', nfa_star gen N1 = Some (N, gen') /\ nfa_wf N /\ ~ In (nq0 N) (nQ N1) /\
        forall w, word_over (nSg N1) w -> (nfa_lang N w <-> lang_star (nfa_lang N1) w).
End C18_shapes.
