From GT Require Import Base.Prelude Base.Sort Model.DFA Model.NFA Model.NFAOps Decide.DFAEquiv Judge.Common.

Definition nfa_struct_eqb (N1 N2 : nfa nat) : bool :=
  seteqb (nQ N1) (nQ N2) && seteqb (nS N1) (nS N2) && Nat.eqb (nq0 N1) (nq0 N2) && seteqb (nF N1) (nF N2) && Nat.eqb (neps N1) (neps N2) &&
  forallb (fun q => forallb (fun a => seteqb (ndelta N1 q a) (ndelta N2 q a)) (neps N1 :: nS N1)) (nQ N1).

(* op: 0 union, 1 concatenation, 2 repetition (N2 ignored) *)
Definition model_op (op : nat) (names : list nat) (N1 N2 : nfa nat) : option (nfa nat) :=
  match op with
  | 0 => option_map fst (nfa_union names N1 N2)
  | 1 => nfa_concatenation N1 N2
  | _ => option_map fst (nfa_repetition names N1)
  end.

Definition judge_op (op : nat) (names : list nat) (N1 N2 : nfa nat) (o : option (nfa nat)) (unchanged : bool) (c : nat) : nat :=
  match o, model_op op names N1 N2 with
  | None, None => 0
  | None, Some _ => c
  | Some _, None => c + 1
  | Some R, Some M =>
    if negb unchanged then c + 2
    else if negb (nfa_wf_b R) then c + 3
    else if negb (match op with 1 => true | _ => negb (mem (nq0 R) (nQ N1)) && (Nat.eqb op 2 || negb (mem (nq0 R) (nQ N2))) end) then c + 4
    else if negb (nfa_equivb R M) then c + 5
    else if nfa_struct_eqb R M then 0 else 1
  end.

Definition judge_C18 (N1 N2 : nfa nat) (calls : list (nat * list nat * option (nfa nat) * bool)) : nat :=
  worst_code (check (nfa_wf_b N1 && nfa_wf_b N2) 9 ::
    map (fun x => let '(op, names, o, unch) := x in judge_op op names N1 N2 o unch (10 * S op)) calls).

Definition explain_C18 (N1 N2 : nfa nat) (names : list nat) := (model_op 0 names N1 N2, model_op 1 names N1 N2, model_op 2 names N1 N2).
