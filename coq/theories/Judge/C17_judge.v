From GT Require Import Base.Prelude Model.Tokens Model.Parser Model.Printer Judge.Common.

Definition tdfa_eqb (X Y : tdfa) : bool :=
  seteqb (tdQ X) (tdQ Y) && seteqb (tdS X) (tdS Y) && seteqb (tdD X) (tdD Y) && eqb (tdq0 X) (tdq0 Y) && seteqb (tdF X) (tdF Y).
Definition flat_n (d : list ((token * token) * list token)) := flat_map (fun e => let '((p, a), s) := e in map (fun q => (p, a, q)) s) d.
Definition tnfa_eqb (X Y : tnfa) : bool :=
  seteqb (tnQ X) (tnQ Y) && seteqb (tnS X) (tnS Y) && seteqb (flat_n (tnD X)) (flat_n (tnD Y)) && eqb (tnq0 X) (tnq0 Y) && seteqb (tnF X) (tnF Y) && eqb (tneps X) (tneps Y).
Definition tpda_eqb (X Y : tpda) : bool :=
  seteqb (tpQ X) (tpQ Y) && seteqb (tpS X) (tpS Y) && seteqb (tpG X) (tpG Y) && seteqb (tpD X) (tpD Y) && eqb (tpq0 X) (tpq0 Y) && seteqb (tpF X) (tpF Y) && eqb (tpeps X) (tpeps Y).
Definition ttm_eqb (X Y : ttm) : bool :=
  seteqb (ttQ X) (ttQ Y) && seteqb (ttS X) (ttS Y) && seteqb (ttG X) (ttG Y) &&
  forallb (fun e => eqb (lookup (fst e) (ttD Y)) (Some (snd e))) (ttD X) && forallb (fun e => eqb (lookup (fst e) (ttD X)) (Some (snd e))) (ttD Y) &&
  eqb (ttq0 X) (ttq0 Y) && eqb (ttqa X) (ttqa Y) && eqb (ttqr X) (ttqr Y) && eqb (ttblank X) (ttblank Y).

Definition cmp {X} (eqbX : X -> X -> bool) (impl model : option X) : bool :=
  match impl, model with
  | None, None => true
  | Some a, Some b => eqbX a b
  | _, _ => false
  end.

(* the implementation parsed `text` and returned o (None = it raised); the model must agree; when `expect` is given
   (a rendering of a known automaton) both must return exactly that automaton *)
Definition judge_dfa (text : list line) (o : option tdfa) (expect : option tdfa) (product_states : bool) : nat :=
  let m := parse_dfa_with (if product_states then re_product_state else re_word) text in
  worst_code [check (cmp tdfa_eqb o m) 10; match expect with Some e => check (cmp tdfa_eqb o (Some e)) 11 | None => 0 end;
              match m with Some D => check (tdfa_wf_b D) 12 | None => 0 end].
(* the other state-label patterns the library offers (automaton_algorithms.state_set_regex, state_word_or_set_regex), passed as the
   rarely used `state_regex` argument: mode 0 = \w+, 1 = product, 2 = set, 3 = word or set *)
Definition re_word_or_set (t : token) : bool := re_word t || re_set_state t.
Definition judge_dfa_mode (text : list line) (o : option tdfa) (expect : option tdfa) (mode : nat) : nat :=
  let re := match mode with 0 => re_word | 1 => re_product_state | 2 => re_set_state | _ => re_word_or_set end in
  let m := parse_dfa_with re text in
  worst_code [check (cmp tdfa_eqb o m) 10; match expect with Some e => check (cmp tdfa_eqb o (Some e)) 11 | None => 0 end;
              match m with Some D => check (tdfa_wf_b D) 12 | None => 0 end].
Definition judge_nfa (text : list line) (o : option tnfa) (expect : option tnfa) : nat :=
  let m := parse_nfa text in
  worst_code [check (cmp tnfa_eqb o m) 20; match expect with Some e => check (cmp tnfa_eqb o (Some e)) 21 | None => 0 end;
              match m with Some N => check (tnfa_wf_b N) 22 | None => 0 end].
Definition judge_pda (text : list line) (o : option tpda) (expect : option tpda) : nat :=
  let m := parse_pda text in
  worst_code [check (cmp tpda_eqb o m) 30; match expect with Some e => check (cmp tpda_eqb o (Some e)) 31 | None => 0 end;
              match m with Some P => check (tpda_wf_b P) 32 | None => 0 end].
Definition judge_tm (text : list line) (o : option ttm) (expect : option ttm) : nat :=
  let m := parse_tm text in
  worst_code [check (cmp ttm_eqb o m) 40; match expect with Some e => check (cmp ttm_eqb o (Some e)) 41 | None => 0 end;
              match m with Some T => check (ttm_wf_b T) 42 | None => 0 end].

Definition idT (l : list token) := l.
Definition idP (l : list (token * token)) := l.
(* the model printer followed by the model parser is the identity on this object (evaluated per case, proved in general) *)
Definition rt_dfa (D : tdfa) : bool := cmp tdfa_eqb (parse_dfa (print_dfa idT idP D)) (Some D).
Definition rt_nfa (N : tnfa) : bool := cmp tnfa_eqb (parse_nfa (print_nfa idT idP N)) (Some N).
Definition rt_pda (P : tpda) : bool := cmp tpda_eqb (parse_pda (print_pda idT idP P)) (Some P).
Definition rt_tm (T : ttm) : bool := cmp ttm_eqb (parse_tm (print_tm idT idP T)) (Some T).
