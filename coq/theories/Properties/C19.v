(* C19 — purity and determinism of the library operations; this file: the part that can be expressed in the model,
   namely "calling an operation again on equal arguments, in a fresh process with a different string-hash seed,
   yields a result with the same language, and the identical value for enumerators and acceptance tests".

   (a) How hash-seed dependence is modelled.  Every choice of the Python code that depends on the hash seed is a
       parameter of the model: `pick : picker _` for set.pop() / set_element() (any function returning a member and the
       remaining members, `picker_ok`), `ord`, `ordB`, `ordV`, `order` for the iteration order of a set (any
       permutation), `rep` for next(iter(S)), and the order in which the elements of a field that stands for a Python
       set or dict are listed.  The theorems of C01-C11, C14, C18 and C20 are all stated for arbitrary admissible values
       of these parameters and characterise the result by a specification that does not mention them; order
       independence is therefore their corollary.  The corollaries are collected below (proofs: Proofs/PurityProofs.v):
         C19_eclose_*            epsilon closure (set.pop)                      same set, same size;
         C19_minimisers_*        dfa_minimize / dfa_quotient / dfa_hopcroft     any two runs of any two of them: same
                                 language, same alphabet, same number of states, same states up to listing order;
         C19_iso_*               dfa_isomorphic / dfa_isomorphic1               identical verdict, also across routines;
         C19_dfa_to_regexp_*     elimination order                              same language, same failure behaviour;
         C19_elim_unit_*, C19_to_chomsky_*, C19_cfg_accepts_*, C19_cfg_words_*  iteration order over the variables
                                 (and the fresh-name stream): same rule set after phase 3, same language after the
                                 conversion, identical membership verdict, same set of enumerated words;
         C19_pda_*               set.pop in the PDA closure (and the limit)     identical verdict / same set of words /
                                 same set of configurations, whenever neither run was truncated;
         C19_nfa_simulate_*      picks in nfa_simulate_word                     a checked run for both picks or None for both;
         C19_dfa_accepts_perm, C19_dfa_wf_perm, C19_nfa_accepts_perm, C19_nfa_wf_perm, C19_nfa_accepts_same
                                 listing order of the sets Q, Sigma, F, of every target set and of the transition dict:
                                 identical acceptance verdict (including the KeyError outcome None for DFAs), validity
                                 preserved.  `NoDup (map fst (dD D))` = the keys of a Python dict are unique.
       Operations whose model has no such parameter (dfa_accepts, dfa_words, nfa_accepts, nfa_words, nfa_to_dfa, the
       closure constructions, regexp and TM routines, CYK on CNF grammars, parser and printer) are Gallina functions
       of their arguments: equal arguments give equal results by reflexivity, nothing is to be proved.
   (b) Residue: argument preservation ("an operation leaves its arguments unchanged") and independence of the call
       history cannot be expressed in a purely functional model — a Gallina function has no way of modifying its
       argument or of keeping state between calls.  They are established by the harness only (deep snapshots of the
       arguments before/after each call, second call in the same process, call after a prefix of other calls:
       harness/props/C19.py, flags judged by Judge/C19_judge.v).
   (c) Logging: `log` returns nothing and its output is not read back by any routine; the models do not contain it, so
       logging cannot influence a model result.  That the Python results do not change with logging switched on is
       again checked by the harness.
   Not covered by a theorem here: the enumerators dfa_words / nfa_words under a permutation of the listing of Sigma and
   of the dicts (the result list is permuted; as a set it is fixed by C02_dfa / C02_nfa for valid automata). *)
From GT Require Import Base.Prelude Base.Sort Model.DFA Model.NFA Model.Minimize Model.Iso Model.GNFA Model.Regexp Model.CFG
  Model.Chomsky Model.CYK Model.PDA Model.Simulate.
From GT Require Model.CFGMisc Proofs.CFGMiscProofs.
From GT Require Import Model.CFG.
From GT Require Import Proofs.PartitionDefs Proofs.MinimizeFinal Proofs.PurityProofs.
From GT Require Proofs.ChomskyEpsUnitProofs Properties.C04.
From Coq Require Import Permutation.

(* words over the alphabet of D *)
Definition W (D : dfa nat) (w : word) : Prop := Forall (fun a => In a (dS D)) w.

(* ---------------- epsilon closure ---------------- *)
Theorem C19_eclose_pick_independent : forall (N : nfa nat) (pick1 pick2 : picker nat) (S0 r1 r2 : list nat),
  nfa_wf N -> picker_ok pick1 -> picker_ok pick2 -> incl S0 (nQ N) ->
  eclose_with pick1 N S0 = Some r1 -> eclose_with pick2 N S0 = Some r2 -> seteq r1 r2.
Proof. exact (fun N pick1 pick2 S0 r1 r2 => eclose_pick_independent N pick1 pick2 S0 r1 r2). Qed.

Theorem C19_eclose_pick_independent_total : forall (N : nfa nat) (pick1 pick2 : picker nat) (S0 : list nat),
  nfa_wf N -> picker_ok pick1 -> picker_ok pick2 -> incl S0 (nQ N) ->
  exists r1 r2, eclose_with pick1 N S0 = Some r1 /\ eclose_with pick2 N S0 = Some r2 /\
                seteq r1 r2 /\ length r1 = length r2.
Proof. exact (fun N pick1 pick2 S0 => eclose_pick_independent_total N pick1 pick2 S0). Qed.

(* ---------------- the three minimisers ---------------- *)
(* any two automata that satisfy the common specification C04_spec of the minimisers *)
Theorem C19_min_spec_unique : forall (D : dfa nat) (D1 D2 : dfa (list nat)), C04.C04_spec D D1 -> C04.C04_spec D D2 ->
  (forall w, W D w -> (dfa_lang D1 w <-> dfa_lang D2 w)) /\
  dS D1 = dS D2 /\
  length (dQ D1) = length (dQ D2) /\
  (forall S1, In S1 (dQ D1) -> exists S2, In S2 (dQ D2) /\ seteq S1 S2).
Proof. exact (fun D D1 D2 => min_spec_unique D D1 D2). Qed.

(* D' is the result of some run of one of the three minimisers, for some admissible naming function (canon: any
   function that lists the members of a set; the library uses print_state_set = canon_nat), iteration orders,
   representative function and picker *)
Definition C19_min_run (D : dfa nat) (D' : dfa (list nat)) : Prop :=
  exists canon : list nat -> list nat, (forall l y, In y (canon l) <-> In y l) /\
    ((exists ord : list nat -> list nat, (forall l, Permutation (ord l) l) /\ dfa_minimize canon ord D = Some D') \/
     (exists (ord : list nat -> list nat) (rep : list nat -> option nat),
        (forall l, Permutation (ord l) l) /\ (forall l, l <> [] -> exists x, rep l = Some x /\ In x l) /\
        dfa_quotient canon ord rep D = Some D') \/
     (exists (ordB : list (list nat) -> list (list nat)) (pick : picker (list nat * nat)),
        (forall l, Permutation (ordB l) l) /\ picker_ok pick /\ dfa_hopcroft canon ordB pick D = Some D')).

(* all nine combinations of two runs in one statement *)
Theorem C19_minimisers_order_independent : forall (D : dfa nat) (D1 D2 : dfa (list nat)),
  dfa_wf D -> NoDup (dQ D) -> NoDup (dF D) -> C19_min_run D D1 -> C19_min_run D D2 ->
  (forall w, W D w -> (dfa_lang D1 w <-> dfa_lang D2 w)) /\
  dS D1 = dS D2 /\
  length (dQ D1) = length (dQ D2) /\
  (forall S1, In S1 (dQ D1) -> exists S2, In S2 (dQ D2) /\ seteq S1 S2).
Proof. exact (fun D D1 D2 => minimisers_order_independent D D1 D2). Qed.

(* an explicit instance: table filling against Hopcroft, with the library's naming function *)
Theorem C19_minimize_vs_hopcroft : forall (ord : list nat -> list nat) (ordB : list (list nat) -> list (list nat))
    (pick : picker (list nat * nat)) (D : dfa nat) (D1 D2 : dfa (list nat)),
  (forall l, Permutation (ord l) l) -> (forall l, Permutation (ordB l) l) -> picker_ok pick ->
  dfa_wf D -> NoDup (dQ D) -> NoDup (dF D) ->
  dfa_minimize canon_nat ord D = Some D1 -> dfa_hopcroft canon_nat ordB pick D = Some D2 ->
  (forall w, W D w -> (dfa_lang D1 w <-> dfa_lang D2 w)) /\
  dS D1 = dS D2 /\
  length (dQ D1) = length (dQ D2) /\
  (forall S1, In S1 (dQ D1) -> exists S2, In S2 (dQ D2) /\ seteq S1 S2).
Proof.
  exact (fun ord ordB pick D D1 D2 Hord HordB Hpick Hwf HndQ HndF E1 E2 =>
    minimisers_order_independent D D1 D2 Hwf HndQ HndF
      (ex_intro _ canon_nat (conj (fun l y => canon_nat_In y l) (or_introl (ex_intro _ ord (conj Hord E1)))))
      (ex_intro _ canon_nat (conj (fun l y => canon_nat_In y l)
         (or_intror (or_intror (ex_intro _ ordB (ex_intro _ pick (conj HordB (conj Hpick E2))))))))).
Qed.

(* ---------------- isomorphism tests ---------------- *)
Theorem C19_iso_pick_independent : forall (D1 D2 : dfa nat) (pick1 pick2 : picker (nat * nat)),
  dfa_wf D1 -> dfa_wf D2 -> seteq (dS D1) (dS D2) -> picker_ok pick1 -> picker_ok pick2 ->
  iso_matrix pick1 D1 D2 = iso_matrix pick2 D1 D2 /\
  iso1 pick1 D1 D2 = iso1 pick2 D1 D2 /\
  iso_matrix pick1 D1 D2 = iso1 pick2 D1 D2.
Proof. exact (fun D1 D2 pick1 pick2 => iso_pick_independent D1 D2 pick1 pick2). Qed.

(* ---------------- dfa_to_regexp ---------------- *)
Theorem C19_dfa_to_regexp_order_independent : forall (start accept : nat) (order1 order2 : list nat) (D : dfa nat) (r1 r2 : re),
  dfa_wf D -> NoDup (map fst (dD D)) -> NoDup (dQ D) -> start <> accept ->
  Permutation order1 (dQ D) -> Permutation order2 (dQ D) ->
  dfa_to_regexp start accept order1 D = Some r1 -> dfa_to_regexp start accept order2 D = Some r2 ->
  forall w, re_lang r1 w <-> re_lang r2 w.
Proof. exact (fun start accept order1 order2 D r1 r2 => dfa_to_regexp_order_independent start accept order1 order2 D r1 r2). Qed.

Theorem C19_dfa_to_regexp_order_independent_fail : forall (start accept : nat) (order1 order2 : list nat) (D : dfa nat),
  dfa_to_regexp start accept order1 D = None <-> dfa_to_regexp start accept order2 D = None.
Proof. exact (fun start accept order1 order2 D => dfa_to_regexp_order_independent_fail start accept order1 order2 D). Qed.

(* ---------------- Chomsky normal form, CFG membership and enumeration ---------------- *)
(* ChomskyEpsUnitProofs.names_disjoint G := forall x, In x (gV G) -> ~ In x (gSg G);
   ChomskyEpsUnitProofs.perm_order ordV  := forall l, Permutation (ordV l) l *)
Theorem C19_elim_unit_order_independent : forall (ordV1 ordV2 : list nat -> list nat) (G G1 G2 : cfg),
  cfg_wf G -> ChomskyEpsUnitProofs.names_disjoint G ->
  ChomskyEpsUnitProofs.perm_order ordV1 -> ChomskyEpsUnitProofs.perm_order ordV2 ->
  elim_unit ordV1 G = Some G1 -> elim_unit ordV2 G = Some G2 ->
  gV G1 = gV G2 /\ gSg G1 = gSg G2 /\ gS G1 = gS G2 /\
  forall A rhs, has_rule G1 A rhs <-> has_rule G2 A rhs.
Proof. exact elim_unit_order_independent. Qed.

Theorem C19_to_chomsky_order_independent : forall (ordV1 ordV2 : list nat -> list nat) (stream1 stream2 : list nat)
    (G G1 : cfg) (rest1 : list nat) (G2 : cfg) (rest2 : list nat),
  cfg_wf G -> ChomskyEpsUnitProofs.names_disjoint G -> In (gS G) (gV G) ->
  ChomskyEpsUnitProofs.perm_order ordV1 -> ChomskyEpsUnitProofs.perm_order ordV2 ->
  (forall x, In x stream1 -> ~ In x (gSg G)) -> (forall x, In x stream2 -> ~ In x (gSg G)) ->
  to_chomsky ordV1 stream1 G = Some (G1, rest1) -> to_chomsky ordV2 stream2 G = Some (G2, rest2) ->
  gSg G1 = gSg G2 /\ forall w, cfg_lang G1 w <-> cfg_lang G2 w.
Proof. exact to_chomsky_order_independent. Qed.

Theorem C19_cfg_accepts_order_independent : forall (ordV1 ordV2 : list nat -> list nat) (stream1 stream2 : list nat)
    (G : cfg) (w : word) (b1 b2 : bool),
  cfg_wf G -> ChomskyEpsUnitProofs.names_disjoint G -> In (gS G) (gV G) ->
  ChomskyEpsUnitProofs.perm_order ordV1 -> ChomskyEpsUnitProofs.perm_order ordV2 ->
  (forall x, In x stream1 -> ~ In x (gSg G)) -> (forall x, In x stream2 -> ~ In x (gSg G)) ->
  cfg_accepts ordV1 stream1 G w = Some b1 -> cfg_accepts ordV2 stream2 G w = Some b2 -> b1 = b2.
Proof. exact cfg_accepts_order_independent. Qed.

Theorem C19_cfg_words_order_independent : forall (ordV1 ordV2 : list nat -> list nat) (stream1 stream2 : list nat)
    (G : cfg) (n : nat) (L1 L2 : list word),
  cfg_wf G -> ChomskyEpsUnitProofs.names_disjoint G -> In (gS G) (gV G) ->
  ChomskyEpsUnitProofs.perm_order ordV1 -> ChomskyEpsUnitProofs.perm_order ordV2 ->
  (forall x, In x stream1 -> ~ In x (gSg G)) -> (forall x, In x stream2 -> ~ In x (gSg G)) ->
  cfg_words ordV1 stream1 G n = Some L1 -> cfg_words ordV2 stream2 G n = Some L2 -> seteq L1 L2.
Proof. exact cfg_words_order_independent. Qed.

(* ---------------- PDA simulation (second component false / [] = the run was not truncated by the limit) ---------------- *)
Theorem C19_pda_accepts_pick_independent : forall (pick1 pick2 : picker config) (P : pda) (limit1 limit2 : nat) (w : word) (v1 v2 : bool),
  picker_ok pick1 -> picker_ok pick2 ->
  pda_accepts pick1 P limit1 w = (v1, false) -> pda_accepts pick2 P limit2 w = (v2, false) -> v1 = v2.
Proof. exact pda_accepts_pick_independent. Qed.

Theorem C19_pda_words_pick_independent : forall (pick1 pick2 : picker config) (P : pda) (limit1 limit2 n : nat) (L1 L2 : list word),
  picker_ok pick1 -> picker_ok pick2 ->
  pda_words pick1 P limit1 n = (L1, false) -> pda_words pick2 P limit2 n = (L2, false) -> seteq L1 L2.
Proof. exact pda_words_pick_independent. Qed.

Theorem C19_pda_eclose_pick_independent : forall (pick1 pick2 : picker config) (P : pda) (limit1 limit2 : nat) (R res1 res2 : list config),
  picker_ok pick1 -> picker_ok pick2 ->
  pda_eclose pick1 P limit1 R = (res1, []) -> pda_eclose pick2 P limit2 R = (res2, []) -> seteq res1 res2.
Proof. exact pda_eclose_pick_independent. Qed.

(* ---------------- nfa_simulate_word ---------------- *)
Theorem C19_nfa_simulate_pick_independent_verdict : forall (pick1 pick2 : picker nat) (N : nfa nat) (w : word),
  picker_ok pick1 -> picker_ok pick2 -> nfa_wf N -> Forall (fun a => In a (nS N)) w ->
  (nfa_accepts N w = Some true /\
   exists run1 run2, nfa_simulate pick1 N w = Some run1 /\ nfa_simulate pick2 N w = Some run2 /\
                     nfa_run_ok N w run1 = true /\ nfa_run_ok N w run2 = true) \/
  (nfa_accepts N w = Some false /\ nfa_simulate pick1 N w = None /\ nfa_simulate pick2 N w = None).
Proof. exact (fun pick1 pick2 N w => nfa_simulate_pick_independent_verdict pick1 pick2 N w). Qed.

(* ---------------- listing order of sets and dicts ---------------- *)
Theorem C19_lookup_perm : forall (V : Type) (k : nat * nat) (m1 m2 : list ((nat * nat) * V)),
  NoDup (map fst m1) -> Permutation m1 m2 -> lookup k m1 = lookup k m2.
Proof. exact (fun V k m1 m2 => lookup_perm k m1 m2). Qed.

Theorem C19_dfa_accepts_perm : forall (D1 D2 : dfa nat) (w : word), NoDup (map fst (dD D1)) ->
  Permutation (dQ D1) (dQ D2) /\ Permutation (dS D1) (dS D2) /\ Permutation (dD D1) (dD D2) /\
  dq0 D1 = dq0 D2 /\ Permutation (dF D1) (dF D2) ->
  dfa_accepts D1 w = dfa_accepts D2 w.
Proof. exact (fun D1 D2 w => dfa_accepts_perm D1 D2 w). Qed.

Theorem C19_dfa_wf_perm : forall (D1 D2 : dfa nat), NoDup (map fst (dD D1)) ->
  Permutation (dQ D1) (dQ D2) /\ Permutation (dS D1) (dS D2) /\ Permutation (dD D1) (dD D2) /\
  dq0 D1 = dq0 D2 /\ Permutation (dF D1) (dF D2) ->
  dfa_wf D1 -> dfa_wf D2.
Proof. exact (fun D1 D2 => dfa_wf_perm D1 D2). Qed.

(* two valid NFAs with the same start state, epsilon symbol, accepting set and transition relation (as sets) *)
Theorem C19_nfa_accepts_same : forall (N1 N2 : nfa nat) (w : word), nfa_wf N1 -> nfa_wf N2 ->
  nq0 N1 = nq0 N2 /\ neps N1 = neps N2 /\ seteq (nF N1) (nF N2) /\
  (forall q a, seteq (ndelta N1 q a) (ndelta N2 q a)) ->
  Forall (fun a => In a (nS N1)) w -> Forall (fun a => In a (nS N2)) w ->
  nfa_accepts N1 w = nfa_accepts N2 w.
Proof. exact (fun N1 N2 w => nfa_accepts_same N1 N2 w). Qed.

(* N2 = N1 with Q, Sigma, F, every target set and the items of the transition dict listed in another order *)
Theorem C19_nfa_accepts_perm : forall (N1 N2 : nfa nat) (w : word), nfa_wf N1 -> NoDup (map fst (nD N1)) ->
  Permutation (nQ N1) (nQ N2) /\ Permutation (nS N1) (nS N2) /\ nq0 N1 = nq0 N2 /\ neps N1 = neps N2 /\
  Permutation (nF N1) (nF N2) /\
  (exists d, Permutation (nD N1) d /\
             Forall2 (fun e1 e2 => fst e1 = fst e2 /\ Permutation (snd e1) (snd e2)) d (nD N2)) ->
  Forall (fun a => In a (nS N1)) w -> nfa_accepts N1 w = nfa_accepts N2 w.
Proof. exact (fun N1 N2 w => nfa_accepts_perm N1 N2 w). Qed.

Theorem C19_nfa_wf_perm : forall (N1 N2 : nfa nat),
  Permutation (nQ N1) (nQ N2) /\ Permutation (nS N1) (nS N2) /\ nq0 N1 = nq0 N2 /\ neps N1 = neps N2 /\
  Permutation (nF N1) (nF N2) /\
  (exists d, Permutation (nD N1) d /\
             Forall2 (fun e1 e2 => fst e1 = fst e2 /\ Permutation (snd e1) (snd e2)) d (nD N2)) ->
  nfa_wf N1 -> nfa_wf N2.
Proof. exact (fun N1 N2 => nfa_wf_perm N1 N2). Qed.

(* ---- conversions outside the pipelines of C03-C10: their result is characterised by the argument alone (no choice is
   involved), so every call yields the same language (Model/CFGMisc.v, Proofs/CFGMiscProofs.v) ---- *)
Theorem C19_cfg_utilities_language : forall (G : cfg) (w : word),
  (cfg_lang (CFGMisc.cfg_remove_inproductive G) w <-> cfg_lang G w) /\
  (cfg_lang (CFGMisc.cfg_put_start_in_front G) w <-> cfg_lang G w) /\
  ((forall r, In r (gR G) -> rrhs r <> [Tm (rvar r)]) -> (cfg_lang (CFGMisc.cfg_remove_useless_rules G) w <-> cfg_lang G w)).
Proof.
  intros G w. split; [|split].
  - exact (CFGMiscProofs.remove_inproductive_lang G w).
  - exact (CFGMiscProofs.put_start_in_front_lang G w).
  - intro H. exact (CFGMiscProofs.remove_useless_rules_lang G w H).
Qed.

Theorem C19_productive_variables : forall (G : cfg) (A : nat),
  In A (CFGMisc.cfg_productive_variables G) <-> exists w : word, derives G [Var A] (tword w).
Proof. exact CFGMiscProofs.productive_sound_complete. Qed.

Theorem C19_cfg_to_nfa_language : forall (eps geps : nat) (G : cfg) (N : nfa nat),
  CFGMisc.cfg_to_nfa eps geps G = Some N -> cfg_wf G ->
  (forall r, In r (gR G) -> forall x, rrhs r = [x] -> sname x <> geps) ->
  nfa_wf N /\ In (gS G) (gV G) /\ ~ In eps (gSg G) /\
  forall w, Forall (fun a => In a (gSg G)) w -> (nfa_lang N w <-> cfg_lang G w).
Proof. exact CFGMiscProofs.cfg_to_nfa_lang. Qed.

Print Assumptions C19_eclose_pick_independent.
Print Assumptions C19_eclose_pick_independent_total.
Print Assumptions C19_min_spec_unique.
Print Assumptions C19_minimisers_order_independent.
Print Assumptions C19_minimize_vs_hopcroft.
Print Assumptions C19_iso_pick_independent.
Print Assumptions C19_dfa_to_regexp_order_independent.
Print Assumptions C19_dfa_to_regexp_order_independent_fail.
Print Assumptions C19_elim_unit_order_independent.
Print Assumptions C19_to_chomsky_order_independent.
Print Assumptions C19_cfg_accepts_order_independent.
Print Assumptions C19_cfg_words_order_independent.
Print Assumptions C19_pda_accepts_pick_independent.
Print Assumptions C19_pda_words_pick_independent.
Print Assumptions C19_pda_eclose_pick_independent.
Print Assumptions C19_nfa_simulate_pick_independent_verdict.
Print Assumptions C19_lookup_perm.
Print Assumptions C19_dfa_accepts_perm.
Print Assumptions C19_dfa_wf_perm.
Print Assumptions C19_nfa_accepts_same.
Print Assumptions C19_nfa_accepts_perm.
Print Assumptions C19_nfa_wf_perm.
Print Assumptions C19_cfg_utilities_language.
Print Assumptions C19_productive_variables.
Print Assumptions C19_cfg_to_nfa_language.
