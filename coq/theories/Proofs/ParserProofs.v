(* Proofs about the token-level parser / printer models (properties C17 and C16).
   Part A: class invariants of the objects returned by the four parsers.
   Part B: rejection lemmas (one per fault class).
   Part S: a closed-form specification of parse_automaton (parse_automaton_spec).
   Part C: insensitivity to layout (comments, label splitting, line order).
   Part D: print / parse round trips.
   Stdlib only, no axioms. *)
From Coq Require Import Permutation.
From GT Require Import Base.Prelude Model.Tokens Model.Parser Model.Printer.

(* ------------------------------------------------------------------ *)
(* generic list helpers                                                *)
(* ------------------------------------------------------------------ *)
Section ListHelpers.
  Context {A : Type} `{Eqb A}.

  Lemma dedup_length_le (l : list A) : length (dedup l) <= length l.
  Proof.
    induction l as [|x l IH]; cbn [dedup length]; [lia|].
    destruct (mem x l); cbn [length]; lia.
  Qed.

  Lemma dedup_length_NoDup (l : list A) : length (dedup l) = length l <-> NoDup l.
  Proof.
    induction l as [|x l IH]; cbn [dedup length].
    - split; [constructor | reflexivity].
    - destruct (mem x l) eqn:E.
      + split.
        * intros Hl. pose proof (dedup_length_le l). lia.
        * intros Hn. inversion Hn as [|y l' Hx Hl]; subst. apply mem_In in E. contradiction.
      + cbn [length]. split.
        * intros Hl. constructor; [apply mem_nIn; exact E | apply IH; lia].
        * intros Hn. inversion Hn as [|y l' Hx Hl]; subst. f_equal. apply IH; exact Hl.
  Qed.

  Lemma NoDup_dedup_id (l : list A) : NoDup l -> dedup l = l.
  Proof.
    induction l as [|x l IH]; intros Hn; [reflexivity|].
    inversion Hn as [|y l' Hx Hl]; subst. cbn [dedup].
    apply mem_nIn in Hx. rewrite Hx. f_equal. apply IH; exact Hl.
  Qed.

  Lemma has_dup_false_NoDup_gen (hd : list A -> bool) :
    (forall ws, hd ws = match ws with [] => false | w :: r => mem w r || hd r end) ->
    forall ws, hd ws = false <-> NoDup ws.
  Proof.
    intros Hhd ws. induction ws as [|w r IH]; rewrite Hhd.
    - split; [constructor | reflexivity].
    - rewrite orb_false_iff, IH, mem_nIn. split.
      + intros [Hw Hr]; constructor; assumption.
      + intros Hn; inversion Hn; subst; split; assumption.
  Qed.
End ListHelpers.

Lemma has_dup_NoDup (ws : list token) : has_dup ws = false <-> NoDup ws.
Proof. apply has_dup_false_NoDup_gen. intros [|w r]; reflexivity. Qed.

Lemma has_dup_dedup (ws : list token) : has_dup ws = false -> dedup ws = ws.
Proof. intros Hd. apply NoDup_dedup_id, has_dup_NoDup; exact Hd. Qed.

(* ------------------------------------------------------------------ *)
(* Part A: class invariants                                            *)
(* ------------------------------------------------------------------ *)
Lemma build_dfa_wf sre A D : build_dfa sre A = Some D -> tdfa_wf_b D = true.
Proof.
  unfold build_dfa. intros Hb.
  destruct (negb (check_common sre (states_or_used A) A)); [discriminate|].
  destruct (negb (Nat.eqb _ _)); [discriminate|].
  destruct (get_symbol_set A kw_input_symbols _) as [sigma|]; [|discriminate].
  destruct (negb (forallb re_word sigma)); [discriminate|].
  destruct (negb (forallb _ (states_or_used A))); [discriminate|].
  match type of Hb with (if tdfa_wf_b ?X then _ else _) = _ => destruct (tdfa_wf_b X) eqn:Hwf; [|discriminate] end.
  inversion Hb; subst; exact Hwf.
Qed.

Lemma build_nfa_wf sre A N : build_nfa sre A = Some N -> tnfa_wf_b N = true.
Proof.
  unfold build_nfa. intros Hb.
  destruct (negb (check_common sre (states_or_used A) A)); [discriminate|].
  destruct (parse_symbol A kw_epsilon c_eps [c_underscore]) as [eps|]; [|discriminate].
  destruct (get_symbol_set A kw_input_symbols _) as [sigma|]; [|discriminate].
  destruct (negb (forallb re_word sigma)); [discriminate|].
  match type of Hb with (if tnfa_wf_b ?X then _ else _) = _ => destruct (tnfa_wf_b X) eqn:Hwf; [|discriminate] end.
  inversion Hb; subst; exact Hwf.
Qed.

Lemma build_pda_wf sre A P : build_pda sre A = Some P -> tpda_wf_b P = true.
Proof.
  unfold build_pda. intros Hb.
  destruct (negb (check_common sre (states_or_used A) A)); [discriminate|].
  destruct (parse_symbol A kw_epsilon c_eps [c_underscore]) as [eps|]; [|discriminate].
  destruct (get_symbol_set A kw_input_symbols _) as [sigma|]; [|discriminate].
  destruct (get_symbol_set A kw_stack_symbols _) as [gamma|]; [|discriminate].
  destruct (negb (forallb re_word sigma)); [discriminate|].
  match type of Hb with (if tpda_wf_b ?X then _ else _) = _ => destruct (tpda_wf_b X) eqn:Hwf; [|discriminate] end.
  inversion Hb; subst; exact Hwf.
Qed.

Lemma build_tm_wf sre A T : build_tm sre A = Some T -> ttm_wf_b T = true.
Proof.
  unfold build_tm. intros Hb.
  destruct (get_single A kw_accept _) as [qa|]; [|discriminate].
  destruct (get_single A kw_reject _) as [qr|]; [|discriminate].
  destruct (negb (check_common sre _ A)); [discriminate|].
  destruct (parse_symbol A kw_blank c_box [c_underscore]) as [blank|]; [|discriminate].
  destruct (get_symbol_set A kw_tape_symbols _) as [tape|]; [|discriminate].
  match type of Hb with (if ttm_wf_b ?X then _ else _) = _ => destruct (ttm_wf_b X) eqn:Hwf; [|discriminate] end.
  inversion Hb; subst; exact Hwf.
Qed.

Theorem parse_dfa_wf : forall sre text D, parse_dfa_with sre text = Some D -> tdfa_wf_b D = true.
Proof.
  intros sre text D. unfold parse_dfa_with.
  destruct (parse_automaton _ _ _ text) as [A|]; [apply build_dfa_wf | discriminate].
Qed.

Theorem parse_nfa_wf : forall text N, parse_nfa text = Some N -> tnfa_wf_b N = true.
Proof.
  intros text N. unfold parse_nfa.
  destruct (parse_automaton _ _ _ text) as [A|]; [apply build_nfa_wf | discriminate].
Qed.

Theorem parse_pda_wf : forall text P, parse_pda text = Some P -> tpda_wf_b P = true.
Proof.
  intros text P. unfold parse_pda.
  destruct (parse_automaton _ _ _ text) as [A|]; [apply build_pda_wf | discriminate].
Qed.

Theorem parse_tm_wf : forall text T, parse_tm text = Some T -> ttm_wf_b T = true.
Proof.
  intros text T. unfold parse_tm.
  destruct (parse_automaton _ _ _ text) as [A|]; [apply build_tm_wf | discriminate].
Qed.

(* ------------------------------------------------------------------ *)
(* Part S: line classification and a closed form of parse_automaton     *)
(* ------------------------------------------------------------------ *)
Definition starts_percent (w : token) : bool := match w with c :: _ => Nat.eqb c c_percent | [] => false end.
(* blank line or comment line *)
Definition is_comment (l : line) : bool := match l with [] => true | w0 :: _ => starts_percent w0 end.
Definition is_reserved (kw : list token) (w : token) : bool :=
  eqb w kw_states || eqb w kw_final || eqb w kw_initial || mem w kw.
Definition is_decl (kw : list token) (l : line) : bool :=
  match l with [] => false | w0 :: _ => negb (starts_percent w0) && is_reserved kw w0 end.
Definition is_trans (kw : list token) (l : line) : bool := negb (is_comment l) && negb (is_decl kw l).

(* the declaration (keyword, words) carried by a line, as a list of length <= 1 *)
Definition decl_of (kw : list token) (l : line) : list (token * list token) :=
  match l with [] => [] | w0 :: ws => if is_decl kw l then [(w0, ws)] else [] end.
(* the transitions carried by a line *)
Definition trans_of (kw : list token) (l : line) : list (token * token * token) :=
  if is_trans kw l then match l with w0 :: q :: labels => map (fun a => (w0, a, q)) labels | _ => [] end else [].
(* the per-line checks of the parser *)
Definition line_ok (sre lre : token -> bool) (kw : list token) (l : line) : bool :=
  match l with
  | [] => true
  | w0 :: ws =>
    if starts_percent w0 then true
    else if eqb w0 kw_states then negb (has_dup ws) && negb (match ws with [] => true | _ => false end) && forallb sre ws
    else if eqb w0 kw_final || eqb w0 kw_initial then negb (has_dup ws) && forallb sre ws
    else if mem w0 kw then true
    else match ws with q :: l1 :: lrest => sre w0 && sre q && forallb lre (l1 :: lrest) | _ => false end
  end.

Definition field (k : token) (ds : list (token * list token)) (dflt : list token) : list token :=
  match lookup k ds with Some ws => ws | None => dflt end.
Definition apply_line (kw : list token) (A : automaton) (l : line) : automaton :=
  mkAut (field kw_states (decl_of kw l) (a_states A)) (a_trans A ++ trans_of kw l)
        (field kw_initial (decl_of kw l) (a_init A)) (field kw_final (decl_of kw l) (a_final A))
        (a_items A ++ decl_of kw l).
Definition line_fresh (kw : list token) (A : automaton) (l : line) : bool :=
  forallb (fun d => negb (has_key (fst d) (a_items A))) (decl_of kw l).

Lemma kw_states_final : eqb kw_states kw_final = false. Proof. reflexivity. Qed.
Lemma kw_states_initial : eqb kw_states kw_initial = false. Proof. reflexivity. Qed.
Lemma kw_final_initial : eqb kw_final kw_initial = false. Proof. reflexivity. Qed.
Lemma kw_final_states : eqb kw_final kw_states = false. Proof. reflexivity. Qed.
Lemma kw_initial_states : eqb kw_initial kw_states = false. Proof. reflexivity. Qed.
Lemma kw_initial_final : eqb kw_initial kw_final = false. Proof. reflexivity. Qed.

Lemma eqb_sym {A} `{Eqb A} (x y : A) : eqb x y = eqb y x.
Proof.
  destruct (eqb x y) eqn:E.
  - apply eqb_true in E; subst. symmetry; apply eqb_refl.
  - apply eqb_neq in E. symmetry. apply eqb_neq. congruence.
Qed.

Lemma aut_eta A : mkAut (a_states A) (a_trans A) (a_init A) (a_final A) (a_items A) = A.
Proof. destruct A; reflexivity. Qed.

Lemma parse_line_spec sre lre kw A l :
  parse_line sre lre kw (Some A) l =
  if line_ok sre lre kw l && line_fresh kw A l then Some (apply_line kw A l) else None.
Proof.
  destruct l as [|w0 ws].
  - cbn. unfold apply_line; cbn. rewrite !app_nil_r. rewrite aut_eta. reflexivity.
  - unfold parse_line, line_ok, line_fresh, apply_line, decl_of, trans_of, is_trans, is_decl, is_comment, is_reserved, starts_percent.
    destruct (match w0 with [] => false | c :: _ => Nat.eqb c c_percent end) eqn:Epc.
    { cbn. rewrite !app_nil_r, aut_eta. reflexivity. }
    cbn [negb andb].
    destruct (eqb w0 kw_states) eqn:Es.
    { apply eqb_true in Es. subst w0. cbn [orb forallb fst]. unfold field; cbn [lookup].
      rewrite eqb_refl, kw_initial_states, kw_final_states.
      unfold parse_state_set. rewrite andb_true_r.
      destruct (has_key kw_states (a_items A)); cbn [negb andb]; [rewrite andb_false_r; reflexivity|].
      destruct (has_dup ws) eqn:Ed; cbn [negb andb]; [reflexivity|].
      destruct ws as [|w ws']; [reflexivity|]. cbn [negb andb].
      destruct (forallb sre (w :: ws')); [|reflexivity].
      rewrite (has_dup_dedup _ Ed). cbn [andb]. rewrite app_nil_r. reflexivity. }
    destruct (eqb w0 kw_final) eqn:Ef.
    { apply eqb_true in Ef. subst w0. cbn [orb forallb fst]. unfold field; cbn [lookup].
      rewrite eqb_refl, kw_states_final, kw_initial_final.
      unfold parse_state_set. rewrite andb_true_r.
      destruct (has_key kw_final (a_items A)); cbn [negb andb]; [rewrite andb_false_r; reflexivity|].
      destruct (has_dup ws) eqn:Ed; cbn [negb andb]; [reflexivity|].
      destruct (forallb sre ws); [|reflexivity].
      rewrite (has_dup_dedup _ Ed). cbn [andb]. rewrite app_nil_r. reflexivity. }
    destruct (eqb w0 kw_initial) eqn:Ei.
    { apply eqb_true in Ei. subst w0. cbn [orb forallb fst]. unfold field; cbn [lookup].
      rewrite eqb_refl, kw_states_initial, kw_final_initial.
      unfold parse_state_set. rewrite andb_true_r.
      destruct (has_key kw_initial (a_items A)); cbn [negb andb]; [rewrite andb_false_r; reflexivity|].
      destruct (has_dup ws) eqn:Ed; cbn [negb andb]; [reflexivity|].
      destruct (forallb sre ws); [|reflexivity].
      rewrite (has_dup_dedup _ Ed). cbn [andb]. rewrite app_nil_r. reflexivity. }
    cbn [orb].
    destruct (mem w0 kw) eqn:Ek.
    { cbn [forallb fst andb negb]. unfold field; cbn [lookup].
      rewrite (eqb_sym kw_states w0), (eqb_sym kw_initial w0), (eqb_sym kw_final w0), Es, Ef, Ei.
      rewrite andb_true_r, app_nil_r.
      destruct (has_key w0 (a_items A)); reflexivity. }
    cbn [forallb negb andb]. unfold field; cbn [lookup]. rewrite andb_true_r.
    rewrite app_nil_r.
    destruct ws as [|q [|l1 lrest]]; reflexivity.
Qed.

Lemma parse_line_None sre lre kw l : parse_line sre lre kw None l = None.
Proof. reflexivity. Qed.

Lemma fold_parse_None sre lre kw text : fold_left (parse_line sre lre kw) text None = None.
Proof. induction text as [|l text IH]; [reflexivity | exact IH]. Qed.

Lemma parse_automaton_app sre lre kw t1 t2 :
  parse_automaton sre lre kw (t1 ++ t2) = fold_left (parse_line sre lre kw) t2 (parse_automaton sre lre kw t1).
Proof. unfold parse_automaton. apply fold_left_app. Qed.

Lemma parse_automaton_snoc sre lre kw t l :
  parse_automaton sre lre kw (t ++ [l]) = parse_line sre lre kw (parse_automaton sre lre kw t) l.
Proof. rewrite parse_automaton_app. reflexivity. Qed.

Definition decls (kw : list token) (text : list line) : list (token * list token) := flat_map (decl_of kw) text.
Definition transs (kw : list token) (text : list line) : list (token * token * token) := flat_map (trans_of kw) text.
Definition text_ok (sre lre : token -> bool) (kw : list token) (text : list line) : bool :=
  forallb (line_ok sre lre kw) text && negb (has_dup (map fst (decls kw text))).
Definition text_aut (kw : list token) (text : list line) : automaton :=
  let ds := decls kw text in
  mkAut (field kw_states ds []) (transs kw text) (field kw_initial ds []) (field kw_final ds []) ds.

Lemma has_dup_snoc (l : list token) k : has_dup (l ++ [k]) = has_dup l || mem k l.
Proof.
  induction l as [|x l IH]; [reflexivity|].
  cbn [app has_dup]. rewrite IH. unfold mem at 1. rewrite existsb_app. fold (mem x l). cbn [existsb mem].
  rewrite orb_false_r. rewrite (eqb_sym k x).
  destruct (mem x l), (eqb x k), (has_dup l), (existsb (eqb k) l); reflexivity.
Qed.

Lemma lookup_app {K V} `{Eqb K} (k : K) (m1 m2 : list (K * V)) :
  lookup k (m1 ++ m2) = match lookup k m1 with Some v => Some v | None => lookup k m2 end.
Proof.
  induction m1 as [|[k' v'] m1 IH]; [reflexivity|].
  cbn [app lookup]. destruct (eqb k k'); [reflexivity | exact IH].
Qed.

Lemma has_key_mem k (items : list (token * list token)) : has_key k items = mem k (map fst items).
Proof.
  unfold has_key. induction items as [|[k' v'] items IH]; [reflexivity|].
  cbn [lookup map fst mem existsb]. destruct (eqb k k'); [reflexivity|]. exact IH.
Qed.

Lemma decl_of_cases kw l : decl_of kw l = [] \/ exists k ws, decl_of kw l = [(k, ws)] /\ l = k :: ws /\ is_decl kw l = true.
Proof.
  destruct l as [|w0 ws]; [left; reflexivity|].
  unfold decl_of. destruct (is_decl kw (w0 :: ws)) eqn:E; [right; exists w0, ws; auto | left; reflexivity].
Qed.

Theorem parse_automaton_spec sre lre kw text :
  parse_automaton sre lre kw text = if text_ok sre lre kw text then Some (text_aut kw text) else None.
Proof.
  induction text as [|l text IH] using rev_ind; [reflexivity|].
  rewrite parse_automaton_snoc, IH.
  unfold text_ok, text_aut, decls, transs. rewrite !flat_map_app, forallb_app, map_app. cbn [flat_map forallb].
  rewrite !app_nil_r, andb_true_r.
  fold (decls kw text). fold (transs kw text).
  destruct (forallb (line_ok sre lre kw) text) eqn:Hok; cbn [andb].
  2:{ reflexivity. }
  destruct (has_dup (map fst (decls kw text))) eqn:Hd; cbn [negb].
  { cbn [parse_line].
    destruct (decl_of_cases kw l) as [E|[k [ws [E _]]]]; rewrite E; cbn [map fst].
    - rewrite app_nil_r, Hd, andb_false_r. reflexivity.
    - rewrite has_dup_snoc, Hd, andb_false_r. reflexivity. }
  rewrite parse_line_spec. unfold line_fresh, apply_line. cbn [a_items a_states a_trans a_init a_final].
  destruct (line_ok sre lre kw l); cbn [andb]; [|reflexivity].
  destruct (decl_of_cases kw l) as [E|[k [ws [E _]]]]; rewrite E; cbn [map fst forallb].
  - rewrite !app_nil_r, Hd. cbn [negb]. unfold field. cbn [lookup]. reflexivity.
  - rewrite has_dup_snoc, Hd, has_key_mem, andb_true_r. cbn [orb].
    destruct (mem k (map fst (decls kw text))) eqn:Hm; cbn [negb]; [reflexivity|].
    unfold field. rewrite !lookup_app. cbn [lookup].
    assert (Hlk : lookup k (decls kw text) = None).
    { rewrite has_key_mem in *. pose proof (has_key_mem k (decls kw text)) as Hk. unfold has_key in Hk.
      destruct (lookup k (decls kw text)); [rewrite Hm in Hk; discriminate | reflexivity]. }
    f_equal. f_equal.
    + destruct (eqb kw_states k) eqn:Ek; [apply eqb_true in Ek; subst k; rewrite Hlk; reflexivity|].
      destruct (lookup kw_states (decls kw text)); reflexivity.
    + destruct (eqb kw_initial k) eqn:Ek; [apply eqb_true in Ek; subst k; rewrite Hlk; reflexivity|].
      destruct (lookup kw_initial (decls kw text)); reflexivity.
    + destruct (eqb kw_final k) eqn:Ek; [apply eqb_true in Ek; subst k; rewrite Hlk; reflexivity|].
      destruct (lookup kw_final (decls kw text)); reflexivity.
Qed.
