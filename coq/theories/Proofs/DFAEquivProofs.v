(* Correctness of the decision procedures of Decide/DFAEquiv.v: language equivalence of two DFAs by closure of
   the reachable state pairs, soundness of the distinguishing-word search, reachability of all states. *)
From GT Require Import Base.Prelude Base.Worklist Model.DFA Decide.DFAEquiv Proofs.WorklistProofs Proofs.NFAProofs.

(* ---------------------------------------------------------------- total run of one DFA *)
Section One.
  Context {A : Type} `{Eqb A}.

  Lemma dstep_In (D : dfa A) q a : dfa_wf D -> In q (dQ D) -> In (dstep D q a) (dQ D).
  Proof.
    intros Hwf Hq. unfold dstep. destruct (ddelta D q a) as [q1|] eqn:E; [|exact Hq].
    apply (ddelta_wf D q a q1 Hwf E).
  Qed.

  Lemma dstep_delta (D : dfa A) q a : dfa_wf D -> In q (dQ D) -> In a (dS D) -> ddelta D q a = Some (dstep D q a).
  Proof.
    intros (_ & _ & _ & Ht) Hq Ha. unfold dstep. destruct (ddelta D q a) as [q1|] eqn:E; [reflexivity|].
    exfalso. apply (Ht q a Hq Ha E).
  Qed.

  Lemma drun_In (D : dfa A) : dfa_wf D -> forall (w : word) q, In q (dQ D) -> In (drun D q w) (dQ D).
  Proof.
    intros Hwf. induction w as [|a w IH]; intros q Hq; cbn [drun]; [exact Hq|].
    apply IH. apply dstep_In; assumption.
  Qed.

  Lemma drun_app (D : dfa A) (w1 w2 : word) : forall q, drun D q (w1 ++ w2) = drun D (drun D q w1) w2.
  Proof. induction w1 as [|a w1 IH]; intros q; cbn [drun app]; [reflexivity | apply IH]. Qed.

  Lemma drun_path (D : dfa A) : dfa_wf D -> forall (w : word) q, In q (dQ D) -> Forall (fun a => In a (dS D)) w ->
    forall q', dfa_path D q w q' <-> q' = drun D q w.
  Proof.
    intros Hwf. induction w as [|a w IH]; intros q Hq Hw q'; cbn [drun].
    - split; [intros Hp; inversion Hp; subst; reflexivity | intros ->; constructor].
    - inversion Hw as [|a' w' Ha Hw']; subst.
      pose proof (dstep_delta D q a Hwf Hq Ha) as Ed.
      pose proof (dstep_In D q a Hwf Hq) as Hq1.
      split.
      + intros Hp. inversion Hp as [|q0 a0 q1 w0 q2 Ed' Hp']; subst.
        rewrite Ed in Ed'. inversion Ed'; subst q1. apply (IH _ Hq1 Hw'); exact Hp'.
      + intros ->. apply dp_cons with (dstep D q a); [exact Ed|]. apply (IH _ Hq1 Hw'); reflexivity.
  Qed.

  Lemma dfa_lang_drun (D : dfa A) (w : word) : dfa_wf D -> Forall (fun a => In a (dS D)) w ->
    (dfa_lang D w <-> In (drun D (dq0 D) w) (dF D)).
  Proof.
    intros Hwf Hw. assert (Hq0 : In (dq0 D) (dQ D)) by (destruct Hwf as (Hq & _); exact Hq).
    unfold dfa_lang. split.
    - intros (qf & Hp & HF). apply (drun_path D Hwf w _ Hq0 Hw) in Hp. subst qf. exact HF.
    - intros HF. exists (drun D (dq0 D) w). split; [|exact HF]. apply (drun_path D Hwf w _ Hq0 Hw). reflexivity.
  Qed.

  Lemma reach_single (D : dfa A) x :
    reach (fun q => map (dstep D q) (dS D)) [dq0 D] x <->
    exists w : word, Forall (fun a => In a (dS D)) w /\ x = drun D (dq0 D) w.
  Proof.
    split.
    - intros Hr. induction Hr as [x Hx|x y Hr IH Hy].
      + destruct Hx as [<-|[]]. exists []. split; [constructor | reflexivity].
      + destruct IH as (w & Hw & ->). apply in_map_iff in Hy. destruct Hy as (a & <- & Ha).
        exists (w ++ [a]). split.
        * apply Forall_app. split; [exact Hw | constructor; [exact Ha | constructor]].
        * rewrite drun_app. reflexivity.
    - intros (w & Hw & ->). induction w as [|a w IH] using rev_ind.
      + apply reach0. left; reflexivity.
      + apply Forall_app in Hw. destruct Hw as [Hw Ha]. inversion Ha as [|a' l' Ha' _]; subst.
        rewrite drun_app. cbn [drun]. apply reachS with (drun D (dq0 D) w); [apply IH; exact Hw|].
        apply in_map. exact Ha'.
  Qed.

  Theorem all_reachable_b_correct (D : dfa A) : dfa_wf D ->
    (all_reachable_b D = true <->
     forall q, In q (dQ D) -> exists w, Forall (fun a => In a (dS D)) w /\ dfa_path D (dq0 D) w q).
  Proof.
    intros Hwf. assert (Hq0 : In (dq0 D) (dQ D)) by (destruct Hwf as (Hq & _); exact Hq).
    unfold all_reachable_b, dfa_reachable.
    destruct (closure (fun q => map (dstep D q) (dS D)) (2 * length (dQ D) + 2) [dq0 D]) as [r|] eqn:E.
    - pose proof (closure_sound_complete _ _ _ E) as Hr. rewrite subsetb_incl. split.
      + intros Hincl q Hq. apply Hincl, Hr, reach_single in Hq. destruct Hq as (w & Hw & ->).
        exists w. split; [exact Hw|]. apply (drun_path D Hwf w _ Hq0 Hw). reflexivity.
      + intros Hall q Hq. destruct (Hall q Hq) as (w & Hw & Hp). apply Hr, reach_single.
        exists w. split; [exact Hw|]. apply (drun_path D Hwf w _ Hq0 Hw). exact Hp.
    - exfalso. revert E. apply (closure_terminates (dQ D)); [|lia].
      intros x Hx. apply reach_single in Hx. destruct Hx as (w & _ & ->). apply drun_In; assumption.
  Qed.
End One.

(* ---------------------------------------------------------------- two DFAs run in parallel *)
Section Two.
  Context {A B : Type} `{Eqb A} `{Eqb B}.

  Lemma reach_pair (D1 : dfa A) (D2 : dfa B) p :
    reach (pair_succ D1 D2) [(dq0 D1, dq0 D2)] p <->
    exists w : word, Forall (fun a => In a (dS D1)) w /\ p = (drun D1 (dq0 D1) w, drun D2 (dq0 D2) w).
  Proof.
    split.
    - intros Hr. induction Hr as [x Hx|x y Hr IH Hy].
      + destruct Hx as [<-|[]]. exists []. split; [constructor | reflexivity].
      + destruct IH as (w & Hw & ->). unfold pair_succ in Hy. apply in_map_iff in Hy. destruct Hy as (a & <- & Ha).
        exists (w ++ [a]). split.
        * apply Forall_app. split; [exact Hw | constructor; [exact Ha | constructor]].
        * rewrite !drun_app. reflexivity.
    - intros (w & Hw & ->). induction w as [|a w IH] using rev_ind.
      + apply reach0. left; reflexivity.
      + apply Forall_app in Hw. destruct Hw as [Hw Ha]. inversion Ha as [|a' l' Ha' _]; subst.
        rewrite !drun_app. cbn [drun].
        apply reachS with (drun D1 (dq0 D1) w, drun D2 (dq0 D2) w); [apply IH; exact Hw|].
        unfold pair_succ. cbn [fst snd].
        apply (in_map (fun a0 => (dstep D1 (drun D1 (dq0 D1) w) a0, dstep D2 (drun D2 (dq0 D2) w) a0))). exact Ha'.
  Qed.

  Lemma reachable_pairs_some (D1 : dfa A) (D2 : dfa B) : dfa_wf D1 -> dfa_wf D2 -> reachable_pairs D1 D2 <> None.
  Proof.
    intros Hwf1 Hwf2. unfold reachable_pairs.
    apply (closure_terminates (list_prod (dQ D1) (dQ D2))).
    - intros x Hx. apply reach_pair in Hx. destruct Hx as (w & _ & ->). apply in_prod.
      + apply drun_In; [exact Hwf1|]. destruct Hwf1 as (Hq & _); exact Hq.
      + apply drun_In; [exact Hwf2|]. destruct Hwf2 as (Hq & _); exact Hq.
    - rewrite prod_length. lia.
  Qed.

  Lemma Forall_seteq (l1 l2 : list nat) (w : word) : seteq l1 l2 ->
    Forall (fun a => In a l1) w -> Forall (fun a => In a l2) w.
  Proof. intros He Hw. eapply Forall_impl; [|exact Hw]. intros a Ha. apply He; exact Ha. Qed.

  Theorem dfa_equivb_correct (D1 : dfa A) (D2 : dfa B) : dfa_wf D1 -> dfa_wf D2 ->
    (dfa_equivb D1 D2 = true <->
     seteq (dS D1) (dS D2) /\ forall w, Forall (fun a => In a (dS D1)) w -> (dfa_lang D1 w <-> dfa_lang D2 w)).
  Proof.
    intros Hwf1 Hwf2. unfold dfa_equivb. rewrite andb_true_iff, seteqb_seteq.
    pose proof (reachable_pairs_some D1 D2 Hwf1 Hwf2) as Hsome.
    destruct (reachable_pairs D1 D2) as [pairs|] eqn:E; [|contradiction]. clear Hsome.
    pose proof (closure_sound_complete _ _ _ E) as Hr.
    rewrite forallb_forall. split.
    - intros [Hs Hall]. split; [exact Hs|]. intros w Hw.
      pose proof (Forall_seteq _ _ _ Hs Hw) as Hw2.
      rewrite (dfa_lang_drun D1 w Hwf1 Hw), (dfa_lang_drun D2 w Hwf2 Hw2).
      assert (Hin : In (drun D1 (dq0 D1) w, drun D2 (dq0 D2) w) pairs).
      { apply Hr, reach_pair. exists w. split; [exact Hw | reflexivity]. }
      apply Hall in Hin. cbn [fst snd] in Hin. apply eqb_prop in Hin. rewrite <- !mem_In, Hin. tauto.
    - intros [Hs Hall]. split; [exact Hs|]. intros p Hp. apply Hr, reach_pair in Hp.
      destruct Hp as (w & Hw & ->). cbn [fst snd].
      pose proof (Forall_seteq _ _ _ Hs Hw) as Hw2. specialize (Hall w Hw).
      rewrite (dfa_lang_drun D1 w Hwf1 Hw), (dfa_lang_drun D2 w Hwf2 Hw2), <- !mem_In in Hall.
      destruct (mem (drun D1 (dq0 D1) w) (dF D1)), (mem (drun D2 (dq0 D2) w) (dF D2)); cbn; try reflexivity.
      + destruct Hall as [Hc _]. specialize (Hc eq_refl). discriminate.
      + destruct Hall as [_ Hc]. specialize (Hc eq_refl). discriminate.
  Qed.

  (* ---- distinguishing word ---- *)
  Definition todo_ok (D1 : dfa A) (D2 : dfa B) (pw : (A * B) * word) : Prop :=
    Forall (fun a => In a (dS D1)) (rev (snd pw)) /\
    fst pw = (drun D1 (dq0 D1) (rev (snd pw)), drun D2 (dq0 D2) (rev (snd pw))).

  Lemma fresh_incl (visited : list (A * B)) (succs : list ((A * B) * word)) : forall acc x,
    In x (fold_left (fun acc x => if mem (fst x) visited || mem (fst x) (map fst acc) then acc else acc ++ [x]) succs acc) ->
    In x acc \/ In x succs.
  Proof.
    induction succs as [|s succs IH]; intros acc x Hx; cbn [fold_left] in Hx; [left; exact Hx|].
    apply IH in Hx. destruct Hx as [Hx|Hx]; [|right; right; exact Hx].
    destruct (mem (fst s) visited || mem (fst s) (map fst acc)); [left; exact Hx|].
    apply in_app_or in Hx. destruct Hx as [Hx|[<-|[]]]; [left; exact Hx | right; left; reflexivity].
  Qed.

  Lemma diff_loop_sound (D1 : dfa A) (D2 : dfa B) : forall fuel visited todo w,
    Forall (todo_ok D1 D2) todo -> diff_loop D1 D2 fuel visited todo = Some w ->
    Forall (fun a => In a (dS D1)) w /\
    mem (drun D1 (dq0 D1) w) (dF D1) <> mem (drun D2 (dq0 D2) w) (dF D2).
  Proof.
    induction fuel as [|f IH]; intros visited todo w Hok E; cbn [diff_loop] in E; [discriminate|].
    destruct todo as [|[p v] rest]; [discriminate|].
    inversion Hok as [|x l Hp Hrest]; subst. destruct Hp as [Hv Hpe]. cbn [fst snd] in Hv, Hpe.
    cbn [fst snd] in E.
    destruct (negb (Bool.eqb (mem (fst p) (dF D1)) (mem (snd p) (dF D2)))) eqn:Eb.
    - inversion E; subst w. split; [exact Hv|]. subst p. cbn [fst snd] in Eb.
      apply negb_true_iff, eqb_false_iff in Eb. exact Eb.
    - apply IH in E; [exact E|]. apply Forall_app. split; [exact Hrest|].
      apply Forall_forall. intros x Hx. apply fresh_incl in Hx. destruct Hx as [[]|Hx].
      apply in_map_iff in Hx. destruct Hx as (a & <- & Ha). unfold todo_ok. cbn [fst snd rev].
      split.
      + apply Forall_app. split; [exact Hv | constructor; [exact Ha | constructor]].
      + rewrite !drun_app. cbn [drun]. subst p. reflexivity.
  Qed.

  Theorem dfa_diff_word_sound (D1 : dfa A) (D2 : dfa B) w : dfa_wf D1 -> dfa_wf D2 -> seteq (dS D1) (dS D2) ->
    dfa_diff_word D1 D2 = Some w ->
    Forall (fun a => In a (dS D1)) w /\ ~ (dfa_lang D1 w <-> dfa_lang D2 w).
  Proof.
    intros Hwf1 Hwf2 Hs E. unfold dfa_diff_word in E. apply diff_loop_sound in E.
    - destruct E as [Hw Hne]. split; [exact Hw|]. intros Hiff. apply Hne.
      pose proof (Forall_seteq _ _ _ Hs Hw) as Hw2.
      rewrite (dfa_lang_drun D1 w Hwf1 Hw), (dfa_lang_drun D2 w Hwf2 Hw2), <- !mem_In in Hiff.
      destruct (mem (drun D1 (dq0 D1) w) (dF D1)), (mem (drun D2 (dq0 D2) w) (dF D2)); try reflexivity.
      + destruct Hiff as [Hc _]. symmetry. apply Hc. reflexivity.
      + destruct Hiff as [_ Hc]. apply Hc. reflexivity.
    - constructor; [|constructor]. split; cbn; [constructor | reflexivity].
  Qed.
End Two.

Print Assumptions dfa_equivb_correct.
Print Assumptions dfa_diff_word_sound.
Print Assumptions all_reachable_b_correct.
