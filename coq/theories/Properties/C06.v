(* C06 — Regexp-to-NFA and DFA-to-regexp conversions preserve the language exactly (all word lengths).
   re_to_nfa eps0 r names: model of RegexpToNFAGenerator.generate; `names` = the identifier-generator stream
   (pairwise distinct state names), eps0 = the epsilon symbol (not a symbol of r).
   dfa_to_regexp start accept order D: model of dfa_to_gnfa + gnfa_minimize; `order` = the order in which the
   states are eliminated (any permutation of Q: set iteration order); `NoDup (map fst (dD D))` = dict keys are unique.
   gpath (Proofs/GNFAProofs.v) = the path language of a generalised NFA with regexp-labelled edges. *)
From GT Require Import Base.Prelude Model.DFA Model.NFA Model.Regexp Model.NFAOps Model.GNFA.
From GT Require Import Proofs.NFAOpsProofs Proofs.GNFAProofs.
From Coq Require Import Permutation.

Theorem C06_regexp_to_nfa : forall (eps0 : nat) (r : re) (names : list nat) (N : nfa nat) (rest : list nat),
  NoDup names -> ~ In eps0 (re_symbols r) -> re_to_nfa eps0 r names = Some (N, rest) ->
  nfa_wf N /\ neps N = eps0 /\
  (exists used, names = used ++ rest /\ forall q, In q (nQ N) -> In q used) /\
  (forall w, ~ In eps0 w -> (nfa_lang N w <-> re_lang r w)).
Proof. exact (fun eps0 r names N rest => @re_to_nfa_correct nat _ eps0 r names N rest). Qed.

Theorem C06_regexp_to_nfa_total : forall (eps0 : nat) (r : re) (names : list nat),
  NoDup names -> ~ In eps0 (re_symbols r) -> 2 * nodes r <= length names -> re_to_nfa eps0 r names <> None.
Proof. exact (fun eps0 r names => @re_to_nfa_total nat _ eps0 r names). Qed.

(* one elimination step preserves the path language from start to accept *)
Theorem C06_rip_lemma : forall (start accept : nat) (Q' I I' : list nat) (q : nat) (d : gdelta) (w : word),
  start <> accept -> NoDup Q' -> ~ In q Q' -> In start Q' -> In accept Q' ->
  In q I -> (forall x, In x I' <-> In x I /\ x <> q) -> incl I' Q' -> ~ In start I -> ~ In accept I ->
  (gpath (rip start accept Q' q d) I' accept start w <-> gpath d I accept start w).
Proof. exact (fun start accept Q' I I' q d w => @rip_lemma nat _ start accept Q' I I' q d w). Qed.

Theorem C06_dfa_to_gnfa : forall (start accept : nat) (D : dfa nat) (d : gdelta),
  dfa_wf D -> NoDup (map fst (dD D)) -> dfa_to_gnfa start accept D = Some d ->
  forall w, gpath d (dQ D) accept start w <-> dfa_lang D w.
Proof. exact (fun start accept D d => @dfa_to_gnfa_lang nat _ start accept D d). Qed.

Theorem C06_dfa_to_regexp : forall (start accept : nat) (order : list nat) (D : dfa nat) (r : re),
  dfa_wf D -> NoDup (map fst (dD D)) -> NoDup (dQ D) -> start <> accept ->
  Permutation order (dQ D) -> dfa_to_regexp start accept order D = Some r ->
  forall w, re_lang r w <-> dfa_lang D w.
Proof. exact (fun start accept order D r => @dfa_to_regexp_correct nat _ start accept order D r). Qed.

Theorem C06_dfa_to_regexp_rejects : forall (start accept : nat) (order : list nat) (D : dfa nat),
  dfa_to_regexp start accept order D = None <-> In start (dQ D) \/ In accept (dQ D).
Proof. exact (fun start accept order D => @dfa_to_regexp_none nat _ start accept order D). Qed.

Print Assumptions C06_regexp_to_nfa.
Print Assumptions C06_regexp_to_nfa_total.
Print Assumptions C06_rip_lemma.
Print Assumptions C06_dfa_to_gnfa.
Print Assumptions C06_dfa_to_regexp.
Print Assumptions C06_dfa_to_regexp_rejects.
