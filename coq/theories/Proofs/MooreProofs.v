(* Correctness of the fast Myhill-Nerode oracle Decide/Moore.v.
     moore_correct           : mn_b D p q = true <-> mn D p q                 (states of a well-formed DFA)
     moore_count_spec        : moore_count D = number of Myhill-Nerode classes of dQ D
     moore_count_of_min_spec : every D' with C04_spec D D' has exactly moore_count D states
   The proof goes through the bounded separation test `sepb` of Proofs/PartitionTheory.v: after k rounds two states
   have the same id iff no word of length <= k separates them (rinv); when the number of ids does not grow the
   partition did not change (pigeon_lists), hence it is stable (stab) and equals Myhill-Nerode equivalence. *)
From GT Require Import Base.Prelude Model.DFA Decide.Moore.
From GT Require Import Proofs.NFAProofs Proofs.DFAOpsProofs Proofs.PartitionDefs Proofs.PartitionTheory.
From GT Require Import Properties.C04.

(* ------------------------------------------------------------------------------------------------------------ *)
(* list facts *)

Lemma index_of_lt (x : nat) (l : list nat) : In x l -> index_of x l < length l.
Proof.
  induction l as [|y l IH]; intros Hx; [destruct Hx|].
  cbn [index_of length]. destruct (eqb x y) eqn:E; [lia|].
  destruct Hx as [Hx|Hx]; [subst y; rewrite eqb_refl in E; discriminate|].
  apply IH in Hx. lia.
Qed.

Lemma index_of_nth (x : nat) (l : list nat) (d : nat) : In x l -> nth (index_of x l) l d = x.
Proof.
  induction l as [|y l IH]; intros Hx; [destruct Hx|].
  cbn [index_of]. destruct (eqb x y) eqn:E.
  - apply eqb_true in E. subst y. reflexivity.
  - destruct Hx as [Hx|Hx]; [subst y; rewrite eqb_refl in E; discriminate|].
    cbn [nth]. apply IH; exact Hx.
Qed.

Lemma index_of_nth_nodup (l : list nat) (d : nat) : NoDup l -> forall j, j < length l -> index_of (nth j l d) l = j.
Proof.
  intros Hnd. induction Hnd as [|y l Hy Hnd IH]; intros j Hj; [cbn [length] in Hj; lia|].
  destruct j as [|j]; cbn [nth index_of].
  - rewrite eqb_refl. reflexivity.
  - cbn [length] in Hj. assert (Hj' : j < length l) by lia.
    destruct (eqb (nth j l d) y) eqn:E.
    + apply eqb_true in E. exfalso. apply Hy. rewrite <- E. apply nth_In; exact Hj'.
    + rewrite (IH j Hj'). reflexivity.
Qed.

Lemma dedup_length_le (l : list nat) : length (dedup l) <= length l.
Proof.
  induction l as [|x l IH]; cbn [dedup length]; [lia|].
  destruct (mem x l); cbn [length]; lia.
Qed.

Lemma dedup_nonempty (l : list nat) : l <> [] -> 1 <= length (dedup l).
Proof.
  intros Hl. destruct l as [|x l]; [contradiction|].
  assert (Hx : In x (dedup (x :: l))) by (apply dedup_In; left; reflexivity).
  destruct (dedup (x :: l)) as [|y l']; [destruct Hx | cbn [length]; lia].
Qed.

Lemma dedup_count_range (l : list nat) (n : nat) : (forall i, In i l <-> i < n) -> length (dedup l) = n.
Proof.
  intros Hl. apply Nat.le_antisymm.
  - rewrite <- (seq_length n 0). apply NoDup_incl_length; [apply dedup_NoDup|].
    intros i Hi. apply (proj1 (dedup_In i l)) in Hi. apply Hl in Hi. apply in_seq. lia.
  - rewrite <- (seq_length n 0) at 1. apply NoDup_incl_length; [apply seq_NoDup|].
    intros i Hi. apply in_seq in Hi. apply dedup_In. apply Hl. lia.
Qed.

Lemma NoDup_seteq_dedup_length (l1 l2 : list nat) :
  NoDup l1 -> (forall x, In x l1 <-> In x l2) -> length l1 = length (dedup l2).
Proof.
  intros Hnd Heq. apply Nat.le_antisymm.
  - apply NoDup_incl_length; [exact Hnd|]. intros x Hx. apply dedup_In. apply Heq. exact Hx.
  - apply NoDup_incl_length; [apply dedup_NoDup|]. intros x Hx. apply (proj1 (dedup_In x l2)) in Hx. apply Heq. exact Hx.
Qed.

Lemma NoDup_map_inj_on {X Y : Type} (g : X -> Y) (l : list X) :
  NoDup (map g l) -> forall x y, In x l -> In y l -> g x = g y -> x = y.
Proof.
  induction l as [|z l IH]; intros Hnd x y Hx Hy E; [destruct Hx|].
  cbn [map] in Hnd. inversion Hnd as [|z' l' Hn Hnd']; subst.
  destruct Hx as [Hx|Hx], Hy as [Hy|Hy].
  - subst. reflexivity.
  - subst z. exfalso. apply Hn. rewrite E. apply in_map; exact Hy.
  - subst z. exfalso. apply Hn. rewrite <- E. apply in_map; exact Hx.
  - apply IH; assumption.
Qed.

Lemma NoDup_map_of_inj_on {X Y : Type} (g : X -> Y) (l : list X) :
  NoDup l -> (forall x y, In x l -> In y l -> g x = g y -> x = y) -> NoDup (map g l).
Proof.
  intros Hnd. induction Hnd as [|z l Hz Hnd IH]; intros Hinj; cbn [map]; [constructor|].
  constructor.
  - intros Hc. apply in_map_iff in Hc. destruct Hc as [y [E Hy]].
    assert (Ey : y = z) by (apply Hinj; [right; exact Hy | left; reflexivity | exact E]).
    subst y. contradiction.
  - apply IH. intros x y Hx Hy. apply Hinj; right; assumption.
Qed.

Lemma Forall2_nth {X Y : Type} (P : X -> Y -> Prop) (l1 : list X) (l2 : list Y) :
  Forall2 P l1 l2 -> forall j d1 d2, j < length l1 -> P (nth j l1 d1) (nth j l2 d2).
Proof.
  intros HF. induction HF as [|x y l1 l2 Hxy HF IH]; intros j d1 d2 Hj; [cbn [length] in Hj; lia|].
  destruct j as [|j]; cbn [nth]; [exact Hxy|]. apply IH. cbn [length] in Hj. lia.
Qed.

Lemma Forall2_len {X Y : Type} (P : X -> Y -> Prop) (l1 : list X) (l2 : list Y) :
  Forall2 P l1 l2 -> length l1 = length l2.
Proof. intros HF. induction HF as [|x y l1 l2 Hxy HF IH]; cbn [length]; [reflexivity | rewrite IH; reflexivity]. Qed.

Lemma nth_map_lt {X Y : Type} (f : X -> Y) (l : list X) (j : nat) (d : X) (d' : Y) :
  j < length l -> nth j (map f l) d' = f (nth j l d).
Proof. intros Hj. rewrite (nth_indep (map f l) d' (f d)); [apply map_nth | rewrite map_length; exact Hj]. Qed.

Lemma hd_In_ne {X : Type} (d : X) (l : list X) : l <> [] -> In (hd d l) l.
Proof. intros Hl. destruct l as [|x l]; [contradiction | left; reflexivity]. Qed.

Lemma existsb_false_all {X : Type} (f : X -> bool) (l : list X) :
  (forall x, In x l -> f x = false) -> existsb f l = false.
Proof.
  intros Hf. destruct (existsb f l) eqn:E; [|reflexivity].
  apply existsb_exists in E. destruct E as [x [Hx Efx]]. rewrite (Hf x Hx) in Efx. discriminate.
Qed.

(* if b refines a (position-wise) and has no more distinct values than a, then a refines b *)
Lemma pigeon_lists (a b : list nat) :
  length a = length b ->
  (forall j1 j2, j1 < length b -> j2 < length b -> nth j1 b 0 = nth j2 b 0 -> nth j1 a 0 = nth j2 a 0) ->
  length (dedup b) <= length (dedup a) ->
  forall j1 j2, j1 < length b -> j2 < length b -> nth j1 a 0 = nth j2 a 0 -> nth j1 b 0 = nth j2 b 0.
Proof.
  intros Hlen Href Hcnt.
  set (g := fun i => nth (index_of i b) a 0).
  assert (Hg : forall j, j < length b -> g (nth j b 0) = nth j a 0).
  { intros j Hj. unfold g. apply Href.
    - apply index_of_lt. apply nth_In; exact Hj.
    - exact Hj.
    - apply index_of_nth. apply nth_In; exact Hj. }
  assert (Hnd : NoDup (map g (dedup b))).
  { apply (NoDup_incl_NoDup (l := dedup a)); [apply dedup_NoDup | rewrite map_length; exact Hcnt|].
    intros x Hx. apply (proj1 (dedup_In x a)) in Hx. destruct (In_nth a x 0 Hx) as [j [Hj Ej]].
    rewrite Hlen in Hj. rewrite <- Ej, <- (Hg j Hj). apply in_map. apply dedup_In. apply nth_In; exact Hj. }
  intros j1 j2 H1 H2 E. apply (NoDup_map_inj_on g (dedup b) Hnd).
  - apply dedup_In. apply nth_In; exact H1.
  - apply dedup_In. apply nth_In; exact H2.
  - rewrite (Hg j1 H1), (Hg j2 H2). exact E.
Qed.

(* ------------------------------------------------------------------------------------------------------------ *)
(* the signature table *)

Definition tl (s : nat * list nat) (tbl : sigtable) : option nat := tlookup (fst s) (snd s) tbl.

Lemma tlookup_nil (c : nat) (t : list nat) : tlookup c t [] = None.
Proof. reflexivity. Qed.

Lemma tlookup_tinsert_same (c : nat) (t : list nat) (i : nat) : forall tbl, tlookup c t (tinsert c t i tbl) = Some i.
Proof.
  induction c as [|c IH]; intros [|b tbl]; cbn [tinsert tlookup lookup]; try rewrite eqb_refl; try reflexivity; apply IH.
Qed.

Lemma tlookup_tinsert_other (c : nat) (t : list nat) (i : nat) : forall tbl c2 t2,
  (c2, t2) <> (c, t) -> tlookup c2 t2 (tinsert c t i tbl) = tlookup c2 t2 tbl.
Proof.
  induction c as [|c IH]; intros [|b tbl] [|c2] t2 Hne; cbn [tinsert tlookup lookup]; try reflexivity.
  - destruct (eqb t2 t) eqn:E; [|reflexivity]. apply eqb_true in E. subst t2. contradiction Hne; reflexivity.
  - destruct (eqb t2 t) eqn:E; [|reflexivity]. apply eqb_true in E. subst t2. contradiction Hne; reflexivity.
  - rewrite IH; [reflexivity|]. intros E. apply Hne. inversion E; reflexivity.
  - apply IH. intros E. apply Hne. inversion E; reflexivity.
Qed.

(* ids of the table are below n and the table is injective *)
Definition tinv (tbl : sigtable) (n : nat) : Prop :=
  (forall s i, tl s tbl = Some i -> i < n) /\
  (forall s1 s2 i, tl s1 tbl = Some i -> tl s2 tbl = Some i -> s1 = s2).

Lemma tinv_nil : tinv [] 0.
Proof. split; intros; discriminate. Qed.

Lemma tl_insert_same (s : nat * list nat) (i : nat) (tbl : sigtable) : tl s (tinsert (fst s) (snd s) i tbl) = Some i.
Proof. apply tlookup_tinsert_same. Qed.

Lemma tl_insert_other (s s2 : nat * list nat) (i : nat) (tbl : sigtable) :
  s2 <> s -> tl s2 (tinsert (fst s) (snd s) i tbl) = tl s2 tbl.
Proof.
  intros Hne. apply tlookup_tinsert_other. intros E. apply Hne.
  destruct s as [c t], s2 as [c2 t2]. exact E.
Qed.

Lemma tinv_insert (tbl : sigtable) (n : nat) (s : nat * list nat) :
  tinv tbl n -> tl s tbl = None -> tinv (tinsert (fst s) (snd s) n tbl) (S n).
Proof.
  intros [Hlt Hinj] Hnone. split.
  - intros s1 i Hs1. destruct (eqb_dec s1 s) as [E|Hne].
    + subst s1. rewrite tl_insert_same in Hs1. inversion Hs1. lia.
    + rewrite (tl_insert_other s s1 n tbl Hne) in Hs1. apply Hlt in Hs1. lia.
  - intros s1 s2 i Hs1 Hs2. destruct (eqb_dec s1 s) as [E1|Hne1], (eqb_dec s2 s) as [E2|Hne2].
    + congruence.
    + subst s1. rewrite tl_insert_same in Hs1. inversion Hs1; subst i.
      rewrite (tl_insert_other s s2 n tbl Hne2) in Hs2. apply Hlt in Hs2. lia.
    + subst s2. rewrite tl_insert_same in Hs2. inversion Hs2; subst i.
      rewrite (tl_insert_other s s1 n tbl Hne1) in Hs1. apply Hlt in Hs1. lia.
    + rewrite (tl_insert_other s s1 n tbl Hne1) in Hs1. rewrite (tl_insert_other s s2 n tbl Hne2) in Hs2.
      apply (Hinj s1 s2 i); assumption.
Qed.

Lemma assign_spec (sigs : list (nat * list nat)) : forall tbl n r n',
  tinv tbl n -> assign sigs tbl n = (r, n') ->
  exists tbl', tinv tbl' n' /\ n <= n' /\
    (forall s i, tl s tbl = Some i -> tl s tbl' = Some i) /\
    Forall2 (fun s i => tl s tbl' = Some i) sigs r /\
    (forall i, n <= i -> i < n' -> In i r).
Proof.
  induction sigs as [|[c t] rest IH]; intros tbl n r n' Hinv E; cbn [assign] in E.
  - inversion E; subst. exists tbl. split; [exact Hinv|]. split; [lia|]. split; [auto|]. split; [constructor|].
    intros i H1 H2. lia.
  - destruct (tlookup c t tbl) as [i0|] eqn:El.
    + destruct (assign rest tbl n) as [r0 n0] eqn:Er. inversion E; subst.
      destruct (IH _ _ _ _ Hinv Er) as [tbl' [Hinv' [Hle [Hext [HF Hsur]]]]].
      exists tbl'. split; [exact Hinv'|]. split; [exact Hle|]. split; [exact Hext|]. split.
      * constructor; [|exact HF]. apply Hext. exact El.
      * intros i H1 H2. right. apply Hsur; assumption.
    + destruct (assign rest (tinsert c t n tbl) (S n)) as [r0 n0] eqn:Er. inversion E; subst.
      assert (Hinv1 : tinv (tinsert c t n tbl) (S n)) by (apply (tinv_insert tbl n (c, t) Hinv); exact El).
      destruct (IH _ _ _ _ Hinv1 Er) as [tbl' [Hinv' [Hle [Hext [HF Hsur]]]]].
      exists tbl'. split; [exact Hinv'|]. split; [lia|]. split; [|split].
      * intros s i Hs. apply Hext. destruct (eqb_dec s (c, t)) as [Es|Hne].
        -- subst s. unfold tl in Hs. cbn [fst snd] in Hs. congruence.
        -- pose proof (tl_insert_other (c, t) s n tbl Hne) as Ho. cbn [fst snd] in Ho. rewrite Ho. exact Hs.
      * constructor; [|exact HF]. apply Hext. apply (tl_insert_same (c, t) n tbl).
      * intros i H1 H2. destruct (Nat.eq_dec i n) as [Ei|Hni]; [left; symmetry; exact Ei|].
        right. apply Hsur; lia.
Qed.

(* numbering from scratch: equal ids <-> equal signatures, and the ids are exactly 0 .. n'-1 *)
Lemma assign_fresh (sigs : list (nat * list nat)) (r : list nat) (n' : nat) :
  assign sigs [] 0 = (r, n') ->
  length r = length sigs /\
  (forall j1 j2 d, j1 < length sigs -> j2 < length sigs ->
     (nth j1 r 0 = nth j2 r 0 <-> nth j1 sigs d = nth j2 sigs d)) /\
  (forall i, In i r <-> i < n').
Proof.
  intros E. destruct (assign_spec sigs [] 0 r n' tinv_nil E) as [tbl' [[Hlt Hinj] [_ [_ [HF Hsur]]]]].
  assert (Hlen : length r = length sigs) by (symmetry; apply (Forall2_len _ _ _ HF)).
  split; [exact Hlen|]. split.
  - intros j1 j2 d H1 H2.
    pose proof (Forall2_nth _ _ _ HF j1 d 0 H1) as P1. pose proof (Forall2_nth _ _ _ HF j2 d 0 H2) as P2. cbn beta in P1, P2.
    split.
    + intros En. rewrite En in P1. apply (Hinj _ _ _ P1 P2).
    + intros Es. rewrite Es in P1. congruence.
  - intros i. split.
    + intros Hi. destruct (In_nth r i 0 Hi) as [j [Hj Ej]]. rewrite Hlen in Hj.
      pose proof (Forall2_nth _ _ _ HF j (0, []) 0 Hj) as P. cbn beta in P. rewrite Ej in P. apply (Hlt _ _ P).
    + intros Hi. apply Hsur; [lia | exact Hi].
Qed.

Lemma moore_sigs_length (succs : list (list nat)) (cls : list nat) :
  length cls = length succs -> length (moore_sigs succs cls) = length cls.
Proof. intros Hl. unfold moore_sigs. rewrite map_length, combine_length, Hl. apply Nat.min_id. Qed.

Lemma moore_sigs_nth (succs : list (list nat)) (cls : list nat) (j : nat) :
  length cls = length succs ->
  nth j (moore_sigs succs cls) (0, []) = (nth j cls 0, map (fun i => nth i cls 0) (nth j succs [])).
Proof.
  intros Hl. unfold moore_sigs.
  change (@pair nat (list nat) 0 [])
    with ((fun cs : nat * list nat => (fst cs, map (fun i => nth i cls 0) (snd cs))) (0, [])) at 1.
  rewrite map_nth. rewrite (combine_nth cls succs j 0 [] Hl). reflexivity.
Qed.

(* ------------------------------------------------------------------------------------------------------------ *)
(* the refinement loop *)

Section Main.
  Variable D : dfa nat.
  Hypothesis Hwf : dfa_wf D.

  Local Notation Qs := (dedup (dQ D)).
  Local Notation succs := (moore_succs D (dedup (dQ D))).
  Local Notation cl := (cl_of (dedup (dQ D))).

  Lemma in_Qs q : In q Qs <-> In q (dQ D).
  Proof. apply dedup_In. Qed.

  Lemma succs_length : length succs = length Qs.
  Proof. unfold moore_succs. apply map_length. Qed.

  Lemma succs_nth p : In p Qs ->
    nth (index_of p Qs) succs [] = map (fun a => index_of (dstep D p a) Qs) (dS D).
  Proof.
    intros Hp. unfold moore_succs.
    rewrite (nth_map_lt _ Qs (index_of p Qs) 0 [] (index_of_lt p Qs Hp)). rewrite (index_of_nth p Qs 0 Hp). reflexivity.
  Qed.

  (* the signature computed for the state p *)
  Lemma sig_at cls p : length cls = length Qs -> In p Qs ->
    nth (index_of p Qs) (moore_sigs succs cls) (0, []) = (cl cls p, map (fun a => cl cls (dstep D p a)) (dS D)).
  Proof.
    intros Hl Hp. rewrite moore_sigs_nth by (rewrite succs_length; exact Hl).
    rewrite (succs_nth p Hp), map_map. reflexivity.
  Qed.

  (* after k rounds: same id <-> not separated by a word of length <= k *)
  Definition rinv (k : nat) (cls : list nat) (n : nat) : Prop :=
    length cls = length Qs /\ n = length (dedup cls) /\
    forall p q, In p Qs -> In q Qs -> (cl cls p = cl cls q <-> sepb D k p q = false).

  Lemma rinv_init : rinv 0 (moore_init D Qs) (length (dedup (moore_init D Qs))).
  Proof.
    split; [unfold moore_init; apply map_length|]. split; [reflexivity|].
    assert (Hc : forall p, In p Qs -> cl (moore_init D Qs) p = if mem p (dF D) then 1 else 0).
    { intros p Hp. unfold cl_of, moore_init.
      rewrite (nth_map_lt _ Qs (index_of p Qs) 0 0 (index_of_lt p Qs Hp)). rewrite (index_of_nth p Qs 0 Hp). reflexivity. }
    intros p q Hp Hq. rewrite (Hc p Hp), (Hc q Hq). cbn [sepb].
    destruct (mem p (dF D)), (mem q (dF D)); cbn; split; intros E; try reflexivity; discriminate.
  Qed.

  Lemma step_in_Qs p a : In p Qs -> In a (dS D) -> In (dstep D p a) Qs.
  Proof. intros Hp Ha. apply in_Qs. apply (dfa_wf_step p a Hwf); [apply in_Qs; exact Hp | exact Ha]. Qed.

  Lemma rinv_round k cls n r n' : rinv k cls n -> moore_round succs cls = (r, n') ->
    rinv (S k) r n' /\
    (forall j1 j2, j1 < length r -> j2 < length r -> nth j1 r 0 = nth j2 r 0 -> nth j1 cls 0 = nth j2 cls 0).
  Proof.
    intros [Hl [Hn Hcl]] E. unfold moore_round in E. apply assign_fresh in E. destruct E as [Hlen [Hnth Hin]].
    assert (Hls : length cls = length succs) by (rewrite succs_length; exact Hl).
    rewrite (moore_sigs_length succs cls Hls) in Hlen, Hnth.
    split.
    - split; [congruence|]. split; [symmetry; apply dedup_count_range; exact Hin|].
      intros p q Hp Hq.
      assert (Hjp : index_of p Qs < length cls) by (rewrite Hl; apply index_of_lt; exact Hp).
      assert (Hjq : index_of q Qs < length cls) by (rewrite Hl; apply index_of_lt; exact Hq).
      unfold cl_of at 1 2. rewrite (Hnth _ _ (0, []) Hjp Hjq), (sig_at cls p Hl Hp), (sig_at cls q Hl Hq).
      change (sepb D (S k) p q) with
        (sepb D k p q || existsb (fun a => sepb D k (dstep D p a) (dstep D q a)) (dS D)).
      rewrite orb_false_iff. split.
      + intros Es. pose proof (f_equal fst Es) as E1. pose proof (f_equal snd Es) as E2. cbn [fst snd] in E1, E2. split; [apply (Hcl p q Hp Hq); exact E1|].
        apply existsb_false_all. intros a Ha.
        apply (Hcl _ _ (step_in_Qs p a Hp Ha) (step_in_Qs q a Hq Ha)).
        apply (proj1 (map_ext_in_iff (f := fun a => cl cls (dstep D p a)) (g := fun a => cl cls (dstep D q a))) E2 a Ha).
      + intros [E1 E2]. f_equal; [apply (Hcl p q Hp Hq); exact E1|].
        apply map_ext_in. intros a Ha. apply (Hcl _ _ (step_in_Qs p a Hp Ha) (step_in_Qs q a Hq Ha)).
        apply (existsb_false_In _ _ a E2 Ha).
    - intros j1 j2 H1 H2 En. rewrite Hlen in H1, H2.
      apply (proj1 (Hnth j1 j2 (0, []) H1 H2)) in En.
      rewrite !(moore_sigs_nth succs cls _ Hls) in En. apply (f_equal fst) in En. exact En.
  Qed.

  (* the number of ids did not grow: the partition is stable *)
  Lemma stab_of_count k cls n r n' : rinv k cls n -> moore_round succs cls = (r, n') -> n' <= n -> stab D k.
  Proof.
    intros Hinv E Hle. destruct (rinv_round k cls n r n' Hinv E) as [[Hl' [Hn' Hcl']] Href].
    destruct Hinv as [Hl [Hn Hcl]].
    assert (Hpig : forall j1 j2, j1 < length r -> j2 < length r -> nth j1 cls 0 = nth j2 cls 0 -> nth j1 r 0 = nth j2 r 0).
    { apply pigeon_lists; [congruence | exact Href | lia]. }
    intros p q Hp Hq. apply (proj2 (in_Qs p)) in Hp. apply (proj2 (in_Qs q)) in Hq.
    assert (Hjp : index_of p Qs < length r) by (rewrite Hl'; apply index_of_lt; exact Hp).
    assert (Hjq : index_of q Qs < length r) by (rewrite Hl'; apply index_of_lt; exact Hq).
    destruct (sepb D (S k) p q) eqn:E1, (sepb D k p q) eqn:E2; try reflexivity; exfalso.
    - apply (Hcl p q Hp Hq) in E2. unfold cl_of in E2. apply (Hpig _ _ Hjp Hjq) in E2.
      apply (Hcl' p q Hp Hq) in E2. congruence.
    - apply (Hcl' p q Hp Hq) in E1. unfold cl_of in E1. apply (Href _ _ Hjp Hjq) in E1.
      apply (Hcl p q Hp Hq) in E1. congruence.
  Qed.

  (* the fuel is never exhausted: every continuing round adds an id, and there are at most |Qs| ids *)
  Lemma moore_loop_spec fuel : forall k cls n, rinv k cls n -> length Qs < fuel + n ->
    forall cls' n', moore_loop succs fuel cls n = (cls', n') -> exists k', rinv k' cls' n' /\ stab D k'.
  Proof.
    induction fuel as [|fuel IH]; intros k cls n Hinv Hfuel cls' n' E.
    - exfalso. destruct Hinv as [Hl [Hn _]]. pose proof (dedup_length_le cls) as Hle. lia.
    - cbn [moore_loop] in E. destruct (moore_round succs cls) as [r nr] eqn:Er.
      destruct (nr <=? n) eqn:Ele.
      + apply Nat.leb_le in Ele. inversion E; subst cls' n'. exists k. split; [exact Hinv|].
        apply (stab_of_count k cls n r nr Hinv Er Ele).
      + apply Nat.leb_gt in Ele. apply (IH (S k) r nr); [apply (rinv_round k cls n r nr Hinv Er) | lia | exact E].
  Qed.

  Lemma moore_run_spec : exists k, rinv k (fst (moore_run D)) (snd (moore_run D)) /\ stab D k.
  Proof.
    unfold moore_run. cbv zeta.
    destruct (moore_loop succs (length (dQ D)) (moore_init D Qs) (length (dedup (moore_init D Qs)))) as [cls n] eqn:E.
    cbn [fst snd]. apply (moore_loop_spec _ 0 _ _ rinv_init) in E; [exact E|].
    pose proof (dedup_length_le (dQ D)) as H1.
    assert (H2 : 1 <= length (dedup (moore_init D Qs))).
    { apply dedup_nonempty. unfold moore_init. intros Hc. apply map_eq_nil in Hc.
      assert (H0 : In (dq0 D) Qs) by (apply (proj2 (in_Qs (dq0 D))); exact (proj1 Hwf)). rewrite Hc in H0. destruct H0. }
    lia.
  Qed.

  (* a stable bounded separation test is Myhill-Nerode equivalence *)
  Lemma stab_mn k : stab D k -> forall p q, In p (dQ D) -> In q (dQ D) -> (sepb D k p q = false <-> mn_equiv D p q).
  Proof.
    intros Hs p q Hp Hq. split.
    - intros E w Hw. apply (sepb_complete D (length w + k) p q); [|lia | exact Hw].
      rewrite (stab_plus D k Hwf Hs (length w) p q Hp Hq). exact E.
    - intros Hmn. destruct (sepb D k p q) eqn:E; [|reflexivity].
      exfalso. apply (separated_not_mn D p q (sepb_sound D k p q E)). exact Hmn.
  Qed.

  Lemma clm_combine (l cls : list nat) q : length cls = length l -> In q l -> clm (combine l cls) q = cl_of l cls q.
  Proof.
    unfold clm, cl_of. revert cls. induction l as [|y l IH]; intros [|c cls] Hl Hq; cbn [length] in Hl;
      try discriminate; try (destruct Hq; fail).
    cbn [combine lookup index_of]. destruct (eqb q y) eqn:E; [reflexivity|].
    cbn [nth]. apply IH; [lia|]. destruct Hq as [Hq|Hq]; [subst y; rewrite eqb_refl in E; discriminate | exact Hq].
  Qed.

  Lemma moore_class_of_spec : exists k, stab D k /\ length (fst (moore_run D)) = length Qs /\
    moore_count D = length (dedup (fst (moore_run D))) /\
    (forall p, In p (dQ D) -> moore_class_of D p = cl (fst (moore_run D)) p) /\
    (forall p q, In p (dQ D) -> In q (dQ D) -> (moore_class_of D p = moore_class_of D q <-> mn_equiv D p q)).
  Proof.
    destruct moore_run_spec as [k [[Hl [Hn Hcl]] Hs]]. exists k. split; [exact Hs|]. split; [exact Hl|].
    split; [exact Hn|].
    assert (Hc : forall p, In p (dQ D) -> moore_class_of D p = cl (fst (moore_run D)) p).
    { intros p Hp. unfold moore_class_of, moore_classes. apply clm_combine; [exact Hl | apply in_Qs; exact Hp]. }
    split; [exact Hc|].
    intros p q Hp Hq. rewrite (Hc p Hp), (Hc q Hq).
    rewrite (Hcl p q (proj2 (in_Qs p) Hp) (proj2 (in_Qs q) Hq)). apply stab_mn; assumption.
  Qed.
End Main.

(* ------------------------------------------------------------------------------------------------------------ *)
(* main theorems; W and mn are the definitions of Properties/C04.v *)

Theorem moore_correct : forall D p q, dfa_wf D -> In p (dQ D) -> In q (dQ D) -> (mn_b D p q = true <-> mn D p q).
Proof.
  intros D p q Hwf Hp Hq. destruct (moore_class_of_spec D Hwf) as [k [_ [_ [_ [_ Hmn]]]]].
  unfold mn_b. rewrite Nat.eqb_eq. apply (Hmn p q Hp Hq).
Qed.

(* the classes can be read off the association list *)
Corollary moore_classes_correct : forall D p q, dfa_wf D -> In p (dQ D) -> In q (dQ D) ->
  (clm (moore_classes D) p = clm (moore_classes D) q <-> mn D p q).
Proof.
  intros D p q Hwf Hp Hq. destruct (moore_class_of_spec D Hwf) as [k [_ [_ [_ [_ Hmn]]]]]. apply (Hmn p q Hp Hq).
Qed.

Lemma moore_classes_keys : forall D, dfa_wf D -> map fst (moore_classes D) = dedup (dQ D).
Proof.
  intros D Hwf. destruct (moore_class_of_spec D Hwf) as [k [_ [Hl _]]].
  unfold moore_classes. revert Hl. generalize (fst (moore_run D)) as cls. generalize (dedup (dQ D)) as l.
  induction l as [|y l IH]; intros [|c cls] Hl; cbn [length] in Hl; try discriminate; [reflexivity|].
  cbn [combine map fst]. f_equal. apply IH. lia.
Qed.

Theorem moore_count_spec : forall D, dfa_wf D -> forall l, NoDup l -> incl l (dQ D) ->
  (forall p q, In p l -> In q l -> p <> q -> ~ mn D p q) ->
  (forall q, In q (dQ D) -> exists p, In p l /\ mn D p q) ->
  length l = moore_count D.
Proof.
  intros D Hwf l Hnd Hinc Hne Hcov.
  destruct (moore_class_of_spec D Hwf) as [k [_ [Hl [Hn [Hc Hmn]]]]].
  rewrite Hn. rewrite <- (map_length (moore_class_of D) l).
  apply NoDup_seteq_dedup_length.
  - apply NoDup_map_of_inj_on; [exact Hnd|]. intros x y Hx Hy E.
    destruct (Nat.eq_dec x y) as [Exy|Hxy]; [exact Exy|]. exfalso.
    apply (Hne x y Hx Hy Hxy). apply (Hmn x y (Hinc x Hx) (Hinc y Hy)). exact E.
  - intros i. split.
    + intros Hi. apply in_map_iff in Hi. destruct Hi as [x [Ex Hx]]. subst i.
      rewrite (Hc x (Hinc x Hx)). unfold cl_of. apply nth_In. rewrite Hl.
      apply index_of_lt. apply dedup_In. apply Hinc; exact Hx.
    + intros Hi. destruct (In_nth _ i 0 Hi) as [j [Hj Ej]]. rewrite Hl in Hj.
      set (q := nth j (dedup (dQ D)) 0).
      assert (Hq : In q (dQ D)) by (apply (dedup_In q (dQ D)); apply nth_In; exact Hj).
      destruct (Hcov q Hq) as [p [Hp Hpq]].
      apply in_map_iff. exists p. split; [|exact Hp].
      rewrite (proj2 (Hmn p q (Hinc p Hp) Hq) Hpq). rewrite (Hc q Hq). unfold cl_of, q.
      rewrite (index_of_nth_nodup (dedup (dQ D)) 0 (dedup_NoDup (dQ D)) j Hj). exact Ej.
Qed.

(* the result of any of the three minimisers (any D' with C04_spec D D') has exactly moore_count D states;
   the hypothesis NoDup (dQ D) is not used *)
Theorem moore_count_of_min_spec : forall D D', dfa_wf D -> NoDup (dQ D) -> C04_spec D D' ->
  length (dQ D') = moore_count D.
Proof.
  intros D D' Hwf _ [_ [_ [Hnd [_ [_ [Hblk [Hcov [Hsame Hdiff]]]]]]]].
  rewrite <- (map_length (hd 0) (dQ D')).
  assert (Hhd : forall S1, In S1 (dQ D') -> In (hd 0 S1) S1).
  { intros S1 H1. apply hd_In_ne. apply (Hblk S1 H1). }
  assert (Hinj : forall S1 S2, In S1 (dQ D') -> In S2 (dQ D') -> mn D (hd 0 S1) (hd 0 S2) -> S1 = S2).
  { intros S1 S2 H1 H2 E. apply (Hdiff S1 S2 (hd 0 S1) (hd 0 S2)); auto. }
  apply (moore_count_spec D Hwf).
  - apply NoDup_map_of_inj_on; [exact Hnd|]. intros S1 S2 H1 H2 E. apply (Hinj S1 S2 H1 H2).
    rewrite E. intros w _. tauto.
  - intros p Hp. apply in_map_iff in Hp. destruct Hp as [S1 [<- H1]]. apply (Hblk S1 H1). apply (Hhd S1 H1).
  - intros p q Hp Hq Hpq Hmn. apply in_map_iff in Hp. apply in_map_iff in Hq.
    destruct Hp as [S1 [<- H1]]. destruct Hq as [S2 [<- H2]].
    apply Hpq. rewrite (Hinj S1 S2 H1 H2 Hmn). reflexivity.
  - intros q Hq. destruct (Hcov q Hq) as [S1 [H1 HqS]]. exists (hd 0 S1). split; [apply in_map; exact H1|].
    apply (Hsame S1); [exact H1 | apply (Hhd S1 H1) | exact HqS].
Qed.

(* ------------------------------------------------------------------------------------------------------------ *)
(* non-vacuity and speed *)

(* a 6-state DFA: {0,1} / {2,3,4} / {5} *)
Definition moore_ex6 : dfa nat :=
  mkDFA [0; 1; 2; 3; 4; 5] [0; 1]
    [((0, 0), 1); ((0, 1), 2); ((1, 0), 0); ((1, 1), 3); ((2, 0), 4); ((2, 1), 5);
     ((3, 0), 4); ((3, 1), 5); ((4, 0), 4); ((4, 1), 5); ((5, 0), 5); ((5, 1), 5)] 0 [2; 3; 4].

Example moore_ex6_wf : dfa_wf moore_ex6.
Proof. apply dfa_wf_b_spec. vm_compute. reflexivity. Qed.

Example moore_ex6_count : moore_count moore_ex6 = 3.
Proof. vm_compute. reflexivity. Qed.

Example moore_ex6_classes : moore_classes moore_ex6 = [(0, 0); (1, 0); (2, 1); (3, 1); (4, 1); (5, 2)].
Proof. vm_compute. reflexivity. Qed.

Example moore_ex6_mn : mn moore_ex6 2 4 /\ ~ mn moore_ex6 1 2.
Proof.
  split.
  - apply (moore_correct moore_ex6 2 4 moore_ex6_wf); [cbn; tauto | cbn; tauto | vm_compute; reflexivity].
  - intros Hmn. apply (moore_correct moore_ex6 1 2 moore_ex6_wf) in Hmn; [|cbn; tauto | cbn; tauto]. vm_compute in Hmn. discriminate.
Qed.

(* 200 states 0..199, alphabet [0;1], delta(q,0) = (q+1) mod 200, delta(q,1) = (q*7+3) mod 200, F = multiples of 3 *)
Definition moore_big (n : nat) : dfa nat :=
  mkDFA (seq 0 n) [0; 1]
    (flat_map (fun q => [((q, 0), (q + 1) mod n); ((q, 1), (q * 7 + 3) mod n)]) (seq 0 n))
    0 (filter (fun q => Nat.eqb (q mod 3) 0) (seq 0 n)).

(* worst case for the number of rounds: a chain of n states, n classes, n - 1 rounds *)
Definition moore_chain (n : nat) : dfa nat :=
  mkDFA (seq 0 n) [0; 1]
    (flat_map (fun q => [((q, 0), Nat.min (q + 1) (n - 1)); ((q, 1), q)]) (seq 0 n))
    0 [n - 1].

Example moore_big_count : moore_count (moore_big 200) = 200.
Proof. vm_compute. reflexivity. Qed.

(* Timings (coqc 8.16.1, this machine):
     Time Eval vm_compute in moore_count (moore_big 200).     = 200   0.28 s
     Time Eval vm_compute in moore_count (moore_big 300).     = 3     0.84 s   (300 = 0 mod 3: classes = residues mod 3)
     Time Eval vm_compute in moore_count (moore_big 299).     = 299   0.72 s
     Time Eval vm_compute in moore_count (moore_chain 200).   = 200   0.56 s   (199 rounds)
     Time Eval vm_compute in moore_count (moore_chain 300).   = 300   1.56 s   (299 rounds)
   Most of the time is the single pass over the transition table (lookup of (q, a) in dD D with unary state names). *)

Print Assumptions moore_correct.
Print Assumptions moore_classes_correct.
Print Assumptions moore_count_spec.
Print Assumptions moore_count_of_min_spec.
