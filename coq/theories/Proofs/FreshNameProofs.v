(* Proofs about Model/FreshName.v: cfg_fresh_variable and fresh_state return a name that is not in the given set,
   and they always return one (the fuel of the loops is never exhausted; the for-loop over the upper-case letters
   never falls off its end). *)
From GT Require Import Base.Prelude Model.Tokens Model.FreshName.

(* ---- decimal rendering ---- *)
Lemma digits_fuel_indep f1 : forall f2 n acc, n < f1 -> n < f2 -> digits_fuel f1 n acc = digits_fuel f2 n acc.
Proof.
  induction f1 as [|f1 IH]; intros f2 n acc H1 H2; [lia|].
  destruct f2 as [|f2]; [lia|]. cbn [digits_fuel].
  destruct (Nat.ltb n 10) eqn:E; [reflexivity|].
  apply Nat.ltb_ge in E.
  assert (Hd : n / 10 < n) by (apply Nat.div_lt; lia).
  apply IH; lia.
Qed.

Lemma digits_fuel_acc f : forall n acc, digits_fuel f n acc = digits_fuel f n [] ++ acc.
Proof.
  induction f as [|f IH]; intros n acc; cbn [digits_fuel]; [reflexivity|].
  destruct (Nat.ltb n 10); [reflexivity|].
  rewrite (IH (n / 10) (_ :: acc)), (IH (n / 10) [_]), <- app_assoc. reflexivity.
Qed.

Lemma digits_small n : n < 10 -> digits n = [148 + n].
Proof.
  intros Hn. unfold digits. cbn [digits_fuel].
  apply Nat.ltb_lt in Hn. rewrite Hn. apply Nat.ltb_lt in Hn. rewrite Nat.mod_small by exact Hn. reflexivity.
Qed.

Lemma digits_step n : 10 <= n -> digits n = digits (n / 10) ++ [148 + Nat.modulo n 10].
Proof.
  intros Hn. unfold digits at 1. cbn [digits_fuel].
  assert (E : Nat.ltb n 10 = false) by (apply Nat.ltb_ge; exact Hn). rewrite E.
  assert (Hd : n / 10 < n) by (apply Nat.div_lt; lia).
  rewrite digits_fuel_acc. f_equal. unfold digits. apply digits_fuel_indep; lia.
Qed.

Lemma digits_nonempty n : digits n <> [].
Proof.
  destruct (Nat.lt_ge_cases n 10) as [Hn|Hn].
  - rewrite digits_small by exact Hn. discriminate.
  - rewrite digits_step by exact Hn. intros Hc. apply app_eq_nil in Hc. destruct Hc as [_ Hc]. discriminate.
Qed.

Lemma digits_inj : forall m n, digits m = digits n -> m = n.
Proof.
  induction m as [m IH] using lt_wf_ind. intros n E.
  destruct (Nat.lt_ge_cases m 10) as [Hm|Hm]; destruct (Nat.lt_ge_cases n 10) as [Hn|Hn].
  - rewrite (digits_small m Hm), (digits_small n Hn) in E. inversion E. lia.
  - rewrite (digits_small m Hm), (digits_step n Hn) in E.
    change [148 + m] with ([] ++ [148 + m]) in E. apply app_inj_tail in E. destruct E as [E _].
    symmetry in E. apply digits_nonempty in E. contradiction.
  - rewrite (digits_step m Hm), (digits_small n Hn) in E.
    change [148 + n] with ([] ++ [148 + n]) in E. apply app_inj_tail in E. destruct E as [E _].
    apply digits_nonempty in E. contradiction.
  - rewrite (digits_step m Hm), (digits_step n Hn) in E. apply app_inj_tail in E. destruct E as [E1 E2].
    assert (Hd : m / 10 < m) by (apply Nat.div_lt; lia).
    apply (IH _ Hd) in E1.
    rewrite (Nat.div_mod m 10), (Nat.div_mod n 10) by lia. lia.
Qed.

(* ---- candidate lists ---- *)
Definition numbered (hint : token) (i n : nat) : list token := map (fun j => hint ++ digits j) (seq i n).

Lemma numbered_NoDup hint i n : NoDup (numbered hint i n).
Proof.
  unfold numbered. revert i. induction n as [|n IH]; intros i; cbn [seq map]; constructor.
  - intros Hc. apply in_map_iff in Hc. destruct Hc as [j [Ej Hj]].
    apply app_inv_head in Ej. apply digits_inj in Ej. apply in_seq in Hj. lia.
  - apply IH.
Qed.

Lemma hint_not_numbered hint i n : ~ In hint (numbered hint i n).
Proof.
  unfold numbered. intros Hc. apply in_map_iff in Hc. destruct Hc as [j [Ej _]].
  rewrite <- (app_nil_r hint) in Ej at 2. apply app_inv_head in Ej. apply digits_nonempty in Ej. exact Ej.
Qed.

Lemma numbered_length hint i n : length (numbered hint i n) = n.
Proof. unfold numbered. rewrite map_length, seq_length. reflexivity. Qed.

(* ---- cfg_fresh_variable: the while loop ---- *)
Lemma fresh_variable_loop_fresh fuel V hint : forall A i B,
  fresh_variable_loop fuel V hint A i = Some B -> ~ In B V.
Proof.
  induction fuel as [|f IH]; intros A i B E; cbn [fresh_variable_loop] in E; [discriminate|].
  destruct (mem A V) eqn:Em.
  - eapply IH; exact E.
  - inversion E; subst B. apply mem_nIn. exact Em.
Qed.

Lemma fresh_variable_loop_shape fuel V hint : forall A i B,
  fresh_variable_loop fuel V hint A i = Some B -> B = A \/ exists j, i <= j /\ B = hint ++ digits j.
Proof.
  induction fuel as [|f IH]; intros A i B E; cbn [fresh_variable_loop] in E; [discriminate|].
  destruct (mem A V) eqn:Em.
  - apply IH in E. destruct E as [E|[j [Hj E]]].
    + right. exists i. split; [lia | exact E].
    + right. exists j. split; [lia | exact E].
  - inversion E; subst B. left. reflexivity.
Qed.

Lemma fresh_variable_loop_none f V hint : forall A i,
  fresh_variable_loop (S f) V hint A i = None -> incl (A :: numbered hint i f) V.
Proof.
  induction f as [|f IH]; intros A i E; cbn [fresh_variable_loop] in E.
  - destruct (mem A V) eqn:Em; [|discriminate]. apply mem_In in Em.
    intros x [<-|[]]. exact Em.
  - destruct (mem A V) eqn:Em; [|discriminate]. apply mem_In in Em.
    change (fresh_variable_loop (S f) V hint (hint ++ digits i) (S i) = None) in E.
    apply IH in E. intros x [<-|Hx]; [exact Em|]. apply E. exact Hx.
Qed.

Lemma fresh_variable_loop_total V hint : fresh_variable_loop (S (length V)) V hint hint 0 <> None.
Proof.
  intros E. apply fresh_variable_loop_none in E.
  assert (Hnd : NoDup (hint :: numbered hint 0 (length V))).
  { constructor; [apply hint_not_numbered | apply numbered_NoDup]. }
  pose proof (NoDup_incl_length Hnd E) as Hl. cbn [length] in Hl. rewrite numbered_length in Hl. lia.
Qed.

(* ---- cfg_fresh_variable: the for loop over the letters ---- *)
Lemma letters_NoDup : NoDup (map (fun c : nat => [c]) upper_letters).
Proof.
  unfold upper_letters. generalize 165 as i. generalize 26 as n.
  induction n as [|n IH]; intros i; cbn [seq map]; constructor.
  - intros Hc. apply in_map_iff in Hc. destruct Hc as [j [Ej Hj]]. cbv beta in Ej.
    assert (Eji : j = i) by (inversion Ej; reflexivity). apply in_seq in Hj. clear Ej IH. subst j. destruct Hj as [Hj _]. exact (Nat.nle_succ_diag_l _ Hj).
  - apply IH.
Qed.

Lemma fresh_variable_small_total V hint : length (dedup V) < 26 -> fresh_variable_small V hint <> None.
Proof.
  intros Hl. unfold fresh_variable_small. destruct (negb (mem hint V)); [discriminate|].
  destruct (find (fun c => negb (mem [c] V)) upper_letters) as [c|] eqn:Ef; [discriminate|]. exfalso.
  assert (Hi : incl (map (fun c : nat => [c]) upper_letters) (dedup V)).
  { intros x Hx. apply in_map_iff in Hx. destruct Hx as [c [<- Hc]].
    apply (find_none _ _ Ef) in Hc. apply negb_false_iff in Hc. apply dedup_In. apply mem_In. exact Hc. }
  pose proof (NoDup_incl_length letters_NoDup Hi) as Hlen.
  rewrite map_length in Hlen. unfold upper_letters in Hlen. rewrite seq_length in Hlen.
  exact (Nat.lt_irrefl _ (Nat.lt_le_trans _ _ _ Hl Hlen)).
Qed.

(* ---- cfg_fresh_variable ---- *)
Theorem fresh_variable_fresh : forall (V : list token) (hint A : token), fresh_variable V hint = Some A -> ~ In A V.
Proof.
  intros V hint A E. unfold fresh_variable in E.
  destruct (Nat.leb 26 (length (dedup V))).
  - eapply fresh_variable_loop_fresh; exact E.
  - unfold fresh_variable_small in E. destruct (negb (mem hint V)) eqn:Eh.
    + inversion E; subst A. apply mem_nIn. apply negb_true_iff. exact Eh.
    + destruct (find (fun c => negb (mem [c] V)) upper_letters) as [c|] eqn:Ef; cbn [option_map] in E; [|discriminate].
      inversion E; subst A. apply find_some in Ef. destruct Ef as [_ Ef].
      apply mem_nIn. apply negb_true_iff. exact Ef.
Qed.

Theorem fresh_variable_total : forall (V : list token) (hint : token), fresh_variable V hint <> None.
Proof.
  intros V hint. unfold fresh_variable.
  destruct (Nat.leb 26 (length (dedup V))) eqn:El.
  - apply fresh_variable_loop_total.
  - apply Nat.leb_gt in El. apply fresh_variable_small_total. exact El.
Qed.

Theorem fresh_variable_result_shape : forall (V : list token) (hint A : token), fresh_variable V hint = Some A ->
  A = hint \/ (exists c, 165 <= c <= 190 /\ A = [c]) \/ (exists i, A = hint ++ digits i).
Proof.
  intros V hint A E. unfold fresh_variable in E.
  destruct (Nat.leb 26 (length (dedup V))).
  - apply fresh_variable_loop_shape in E. destruct E as [E|[j [_ E]]]; [left; exact E | right; right; exists j; exact E].
  - unfold fresh_variable_small in E. destruct (negb (mem hint V)).
    + inversion E. left. reflexivity.
    + destruct (find (fun c => negb (mem [c] V)) upper_letters) as [c|] eqn:Ef; cbn [option_map] in E; [|discriminate].
      inversion E; subst A. apply find_some in Ef. destruct Ef as [Hc _].
      unfold upper_letters in Hc. apply in_seq in Hc. right. left. exists c. split; [lia | reflexivity].
Qed.

Lemma find_seq_first (f : nat -> bool) : forall n i c, find f (seq i n) = Some c ->
  i <= c < i + n /\ f c = true /\ forall d, i <= d < c -> f d = false.
Proof.
  induction n as [|n IH]; intros i c Ef; cbn [seq find] in Ef; [discriminate|].
  destruct (f i) eqn:Ei.
  - inversion Ef; subst c. split; [lia|]. split; [exact Ei|]. intros d Hd. lia.
  - apply IH in Ef. destruct Ef as [Hr [Hn Hd]]. split; [lia|]. split; [exact Hn|].
    intros d Hdd. destruct (Nat.eq_dec d i) as [->|Hne]; [exact Ei | apply Hd; lia].
Qed.

(* the exact result in each branch *)
Theorem fresh_variable_small_hint : forall (V : list token) (hint : token),
  length (dedup V) < 26 -> ~ In hint V -> fresh_variable V hint = Some hint.
Proof.
  intros V hint Hl Hn. unfold fresh_variable.
  assert (El : Nat.leb 26 (length (dedup V)) = false) by (apply Nat.leb_gt; exact Hl). rewrite El.
  unfold fresh_variable_small. apply mem_nIn in Hn. rewrite Hn. reflexivity.
Qed.

Theorem fresh_variable_small_letter : forall (V : list token) (hint A : token),
  length (dedup V) < 26 -> In hint V -> fresh_variable V hint = Some A ->
  exists c, A = [c] /\ 165 <= c <= 190 /\ ~ In [c] V /\ forall d, 165 <= d < c -> In [d] V.
Proof.
  intros V hint A Hl Hin E. unfold fresh_variable in E.
  assert (El : Nat.leb 26 (length (dedup V)) = false) by (apply Nat.leb_gt; exact Hl). rewrite El in E.
  unfold fresh_variable_small in E. apply mem_In in Hin. rewrite Hin in E. cbn [negb] in E.
  destruct (find (fun c => negb (mem [c] V)) upper_letters) as [c|] eqn:Ef; cbn [option_map] in E; [|discriminate].
  inversion E; subst A. exists c. split; [reflexivity|].
  unfold upper_letters in Ef. apply find_seq_first in Ef. destruct Ef as [Hr [Hc Hd]].
  split; [lia|]. split; [apply mem_nIn, negb_true_iff; exact Hc|].
  intros d Hdd. apply mem_In. apply negb_false_iff. apply Hd. exact Hdd.
Qed.

(* in the branch len(V) >= 26 the result is the first of hint, hint0, hint1, ... that is not in V *)
Theorem fresh_variable_large_first : forall (V : list token) (hint A : token),
  26 <= length (dedup V) -> fresh_variable V hint = Some A ->
  (A = hint /\ ~ In hint V) \/
  (exists i, A = hint ++ digits i /\ In hint V /\ ~ In A V /\ forall j, j < i -> In (hint ++ digits j) V).
Proof.
  intros V hint A Hl E. unfold fresh_variable in E.
  assert (El : Nat.leb 26 (length (dedup V)) = true) by (apply Nat.leb_le; exact Hl). rewrite El in E.
  remember (S (length V)) as fuel eqn:Ef. clear Ef El Hl.
  destruct fuel as [|f]; cbn [fresh_variable_loop] in E; [discriminate|].
  destruct (mem hint V) eqn:Eh.
  - right. apply mem_In in Eh.
    assert (G : forall f i, (forall j, j < i -> In (hint ++ digits j) V) ->
                fresh_variable_loop f V hint (hint ++ digits i) (S i) = Some A ->
                exists k, A = hint ++ digits k /\ ~ In A V /\ forall j, j < k -> In (hint ++ digits j) V).
    { clear f E. induction f as [|f IH]; intros i Hlt E; cbn [fresh_variable_loop] in E; [discriminate|].
      match type of E with context [if ?c then _ else _] => destruct c eqn:Em end.
      - apply IH in E; [exact E|]. intros j Hj. destruct (Nat.eq_dec j i) as [->|Hne]; [apply mem_In; exact Em | apply Hlt; lia].
      - inversion E; subst A. exists i. split; [reflexivity|]. split; [apply mem_nIn; exact Em | exact Hlt]. }
    apply G in E; [|intros j Hj; lia]. destruct E as [k [E1 [E2 E3]]]. exists k. auto.
  - left. inversion E; subst A. split; [reflexivity | apply mem_nIn; exact Eh].
Qed.

(* ---- fresh_state ---- *)
Lemma fresh_state_loop_fresh fuel Q hint : forall i q, fresh_state_loop fuel Q hint i = Some q -> ~ In q Q.
Proof.
  induction fuel as [|f IH]; intros i q E; cbn [fresh_state_loop] in E; [discriminate|]. cbv zeta in E.
  match type of E with context [if ?c then _ else _] => destruct c eqn:Em end.
  - eapply IH; exact E.
  - inversion E; subst q. apply mem_nIn. exact Em.
Qed.

Lemma fresh_state_loop_none f Q hint : forall i, fresh_state_loop f Q hint i = None -> incl (numbered hint i f) Q.
Proof.
  induction f as [|f IH]; intros i E; cbn [fresh_state_loop] in E.
  - intros x [].
  - cbv zeta in E. match type of E with context [if ?c then _ else _] => destruct c eqn:Em end; [|discriminate]. apply mem_In in Em.
    apply IH in E. unfold numbered. cbn [seq map]. intros x [<-|Hx]; [exact Em | apply E; exact Hx].
Qed.

Lemma fresh_state_loop_first fuel Q hint : forall i q, fresh_state_loop fuel Q hint i = Some q ->
  exists k, i <= k /\ q = hint ++ digits k /\ forall j, i <= j < k -> In (hint ++ digits j) Q.
Proof.
  induction fuel as [|f IH]; intros i q E; cbn [fresh_state_loop] in E; [discriminate|]. cbv zeta in E.
  match type of E with context [if ?c then _ else _] => destruct c eqn:Em end.
  - apply IH in E. destruct E as [k [Hk [Eq Hj]]]. exists k. split; [lia|]. split; [exact Eq|].
    intros j Hjj. destruct (Nat.eq_dec j i) as [->|Hne]; [apply mem_In; exact Em | apply Hj; lia].
  - inversion E; subst q. exists i. split; [lia|]. split; [reflexivity|]. intros j Hj. lia.
Qed.

Theorem fresh_state_tok_fresh : forall (Q : list token) (hint q : token), fresh_state Q hint = Some q -> ~ In q Q.
Proof. intros Q hint q E. unfold fresh_state in E. eapply fresh_state_loop_fresh; exact E. Qed.

Theorem fresh_state_tok_total : forall (Q : list token) (hint : token), fresh_state Q hint <> None.
Proof.
  intros Q hint E. unfold fresh_state in E. apply fresh_state_loop_none in E.
  pose proof (NoDup_incl_length (numbered_NoDup hint 1 (S (length Q))) E) as Hl.
  rewrite numbered_length in Hl. lia.
Qed.

(* the result is hint ++ digits k for the least k >= 1 such that this name is not in Q *)
Theorem fresh_state_tok_shape : forall (Q : list token) (hint q : token), fresh_state Q hint = Some q ->
  exists k, 1 <= k /\ q = hint ++ digits k /\ ~ In q Q /\ forall j, 1 <= j < k -> In (hint ++ digits j) Q.
Proof.
  intros Q hint q E. pose proof (fresh_state_tok_fresh _ _ _ E) as Hn.
  apply fresh_state_loop_first in E. destruct E as [k [Hk [Eq Hj]]]. exists k. auto.
Qed.

Print Assumptions digits_inj.
Print Assumptions fresh_variable_fresh.
Print Assumptions fresh_variable_total.
Print Assumptions fresh_variable_result_shape.
Print Assumptions fresh_variable_small_hint.
Print Assumptions fresh_variable_small_letter.
Print Assumptions fresh_variable_large_first.
Print Assumptions fresh_state_tok_fresh.
Print Assumptions fresh_state_tok_total.
Print Assumptions fresh_state_tok_shape.
