(* Design note: the store-passing model of §3.5 for nfa_repetition, before and after the
   planned repair (F9), with the frame statement and a vm_compute witness that the unrepaired
   routine mutates its operand once the operand's dict holds the (q, eps) key.
   Calibration sketch, not part of the machinery; no axioms. *)
From Coq Require Import List Bool Arith Lia.
Import ListNotations.

Definition cell := nat.
Definition heap := list (cell * list nat).                (* cell id |-> contents of a Python set object *)
Fixpoint hget (h : heap) (c : cell) : list nat :=
  match h with [] => [] | (c', v) :: h' => if Nat.eqb c c' then v else hget h' c end.
Definition hset (h : heap) (c : cell) (v : list nat) : heap := (c, v) :: h.   (* newest binding wins *)
Definition fresh_cell (h : heap) : cell := S (fold_right (fun cv m => Nat.max (fst cv) m) 0 h).

(* an NFA object: delta is a dict from (state, symbol) to a *reference* to a set object *)
Record nfa_obj := { oQ : list nat; oSg : list nat; oDelta : list ((nat * nat) * cell); oq0 : nat; oF : list nat; oeps : nat }.
Fixpoint dget (d : list ((nat * nat) * cell)) (k : nat * nat) : option cell :=
  match d with [] => None | (k', c) :: d' => if (Nat.eqb (fst k) (fst k') && Nat.eqb (snd k) (snd k'))%bool then Some c else dget d' k end.

Definition add_elem (x : nat) (l : list nat) := if existsb (Nat.eqb x) l then l else l ++ [x].

(* delta[q, eps] |= {x} on a defaultdict: in-place update of the shared set object when the key
   exists, otherwise a fresh set object is created and bound (no sharing). *)
Definition ior (h : heap) (d : list ((nat * nat) * cell)) (k : nat * nat) (x : nat) : heap * list ((nat * nat) * cell) :=
  match dget d k with
  | Some c => (hset h c (add_elem x (hget h c)), d)
  | None => let c := fresh_cell h in (hset h c [x], (k, c) :: d)
  end.

(* as written in nfa_algorithms.py: delta.update(N.delta) copies the references *)
Definition repetition_as_written (h : heap) (N : nfa_obj) (q0' : nat) : heap * nfa_obj :=
  let F' := add_elem q0' (oF N) in
  let '(h1, d1) := fold_left (fun hd q => ior (fst hd) (snd hd) (q, oeps N) (oq0 N)) F' (h, oDelta N) in
  let c := fresh_cell h1 in
  (hset h1 c [oq0 N], {| oQ := add_elem q0' (oQ N); oSg := oSg N; oDelta := ((q0', oeps N), c) :: d1; oq0 := q0'; oF := F'; oeps := oeps N |}).

(* repaired: delta[q, eps] = delta[q, eps] | {x} allocates *)
Definition bor (h : heap) (d : list ((nat * nat) * cell)) (k : nat * nat) (x : nat) : heap * list ((nat * nat) * cell) :=
  let old := match dget d k with Some c => hget h c | None => [] end in
  let c := fresh_cell h in (hset h c (add_elem x old), (k, c) :: d).
Definition repetition_repaired (h : heap) (N : nfa_obj) (q0' : nat) : heap * nfa_obj :=
  let F' := add_elem q0' (oF N) in
  let '(h1, d1) := fold_left (fun hd q => bor (fst hd) (snd hd) (q, oeps N) (oq0 N)) F' (h, oDelta N) in
  let c := fresh_cell h1 in
  (hset h1 c [oq0 N], {| oQ := add_elem q0' (oQ N); oSg := oSg N; oDelta := ((q0', oeps N), c) :: d1; oq0 := q0'; oF := F'; oeps := oeps N |}).

(* observable content of an object in a heap: its transition triples *)
Definition content (h : heap) (N : nfa_obj) : list ((nat * nat) * list nat) := map (fun kc => (fst kc, hget h (snd kc))) (oDelta N).

(* the frame statement (C19 for this routine) *)
Definition frame (f : heap -> nfa_obj -> nat -> heap * nfa_obj) : Prop :=
  forall h N q0', (forall k c, In (k, c) (oDelta N) -> c < fresh_cell h) -> content (fst (f h N q0')) N = content h N.

(* witness: states 0 -a-> 1, F = {1}, eps = 9, and the operand's dict already holds the key (1, eps)
   with an empty set (what an earlier nfa_accepts_word call leaves behind in the defaultdict) *)
Definition h0 : heap := [(1, [1]); (2, [])].
Definition N0 : nfa_obj := {| oQ := [0;1]; oSg := [5]; oDelta := [((0,5),1); ((1,9),2)]; oq0 := 0; oF := [1]; oeps := 9 |}.
Example as_written_mutates_operand : content (fst (repetition_as_written h0 N0 7)) N0 <> content h0 N0.
Proof. vm_compute. discriminate. Qed.
Example repaired_keeps_operand : content (fst (repetition_repaired h0 N0 7)) N0 = content h0 N0.
Proof. vm_compute. reflexivity. Qed.

Lemma hget_hset_other h c v c' : c' <> c -> hget (hset h c v) c' = hget h c'.
Proof. intros H. unfold hset. cbn. destruct (Nat.eqb c' c) eqn:E; auto. apply Nat.eqb_eq in E. congruence. Qed.
