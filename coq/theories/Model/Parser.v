(* Model of gambatools.automaton_algorithms (AutomatonParser, AutomatonBuilder) and of DFABuilder, NFABuilder,
   PDABuilder, TMBuilder: from a token-level text to an automaton whose states and symbols are tokens.
   None = the description is rejected (RuntimeError / AssertionError / ValueError in the Python).
   TMBuilder as repaired by fix F16 (a declared empty input alphabet stays empty).  Definitions only. *)
From GT Require Import Base.Prelude Model.Tokens Model.DFA Model.NFA Model.PDA Model.TM.

Record automaton := mkAut {
  a_states : list token; a_trans : list (token * token * token);     (* (p, label, q) *)
  a_init : list token; a_final : list token; a_items : list (token * list token) }.

Definition has_key (k : token) (items : list (token * list token)) : bool := match lookup k items with Some _ => true | None => false end.
Fixpoint has_dup (ws : list token) : bool := match ws with [] => false | w :: r => mem w r || has_dup r end.

(* parse_state_set *)
Definition parse_state_set (state_re : token -> bool) (A : automaton) (kw : token) (ws : list token) (non_empty : bool) : option (list token) :=
  if has_key kw (a_items A) then None
  else if has_dup ws then None
  else if non_empty && match ws with [] => true | _ => false end then None
  else if forallb state_re ws then Some (dedup ws) else None.

Definition parse_line (state_re label_re : token -> bool) (keywords : list token) (oA : option automaton) (ln : line) : option automaton :=
  match oA with
  | None => None
  | Some A =>
    match ln with
    | [] => Some A
    | w0 :: ws =>
      if match w0 with c :: _ => Nat.eqb c c_percent | [] => false end then Some A
      else if eqb w0 kw_states then
        match parse_state_set state_re A kw_states ws true with
        | Some s => Some (mkAut s (a_trans A) (a_init A) (a_final A) (a_items A ++ [(kw_states, ws)]))
        | None => None end
      else if eqb w0 kw_final then
        match parse_state_set state_re A kw_final ws false with
        | Some s => Some (mkAut (a_states A) (a_trans A) (a_init A) s (a_items A ++ [(kw_final, ws)]))
        | None => None end
      else if eqb w0 kw_initial then
        match parse_state_set state_re A kw_initial ws false with
        | Some s => Some (mkAut (a_states A) (a_trans A) s (a_final A) (a_items A ++ [(kw_initial, ws)]))
        | None => None end
      else if mem w0 keywords then
        if has_key w0 (a_items A) then None
        else Some (mkAut (a_states A) (a_trans A) (a_init A) (a_final A) (a_items A ++ [(w0, ws)]))
      else
        match ws with
        | q :: l1 :: lrest =>
          let labels := l1 :: lrest in
          if state_re w0 && state_re q && forallb label_re labels
          then Some (mkAut (a_states A) (a_trans A ++ map (fun a => (w0, a, q)) labels) (a_init A) (a_final A) (a_items A))
          else None
        | _ => None       (* incomplete transition *)
        end
    end
  end.
Definition parse_automaton (state_re label_re : token -> bool) (keywords : list token) (text : list line) : option automaton :=
  fold_left (parse_line state_re label_re keywords) text (Some (mkAut [] [] [] [] [])).

(* ---- AutomatonBuilder helpers ---- *)
Definition used_states (A : automaton) : list token :=
  dedup (a_init A ++ a_final A ++ flat_map (fun t => let '(p, _, q) := t in [p; q]) (a_trans A)).
Definition states_or_used (A : automaton) : list token := match a_states A with [] => used_states A | s => s end.
Definition check_common (state_re : token -> bool) (states : list token) (A : automaton) : bool :=
  subsetb (used_states A) states && forallb state_re states && Nat.eqb (length (dedup (a_init A))) 1.
(* get_symbol: exactly one value *)
Definition get_single (A : automaton) (k : token) (default : token) : option token :=
  match lookup k (a_items A) with
  | Some [v] => Some v
  | Some _ => None
  | None => Some default
  end.
(* parse_symbol(key, value, default): the declared symbol, else `value` if some label contains it, else default *)
Definition contains_char (c : nat) (t : token) : bool := mem c t.
Definition parse_symbol (A : automaton) (k : token) (valc : nat) (default : token) : option token :=
  match lookup k (a_items A) with
  | Some _ => get_single A k default
  | None => if existsb (fun t => let '(_, a, _) := t in contains_char valc a) (a_trans A) then Some [valc] else Some default
  end.
(* get_symbol_set(key, used): declared set (used symbols must be declared when `used` is non-empty), else used *)
Definition get_symbol_set (A : automaton) (k : token) (used : list token) : option (list token) :=
  match lookup k (a_items A) with
  | Some declared => if subsetb used (dedup declared) then Some (dedup declared) else None
  | None => Some used
  end.

(* ---- DFABuilder: states and symbols are tokens ---- *)
Record tdfa := mkTDFA { tdQ : list token; tdS : list token; tdD : list ((token * token) * token); tdq0 : token; tdF : list token }.
Definition tdfa_wf_b (D : tdfa) : bool :=
  mem (tdq0 D) (tdQ D) && subsetb (tdF D) (tdQ D) &&
  forallb (fun e => let '((q, a), q1) := e in mem q (tdQ D) && mem a (tdS D) && mem q1 (tdQ D)) (tdD D) &&
  forallb (fun q => forallb (fun a => match lookup (q, a) (tdD D) with Some _ => true | None => false end) (tdS D)) (tdQ D).
Definition build_dfa (state_re : token -> bool) (A : automaton) : option tdfa :=
  let states := states_or_used A in
  if negb (check_common state_re states A) then None
  else
    let keys := map (fun t => let '(p, a, _) := t in (p, a)) (a_trans A) in
    if negb (Nat.eqb (length (dedup keys)) (length keys)) then None              (* not deterministic *)
    else match get_symbol_set A kw_input_symbols (dedup (map snd keys)) with
         | None => None
         | Some sigma =>
           if negb (forallb re_word sigma) then None
           else if negb (forallb (fun p => forallb (fun a => mem (p, a) keys) sigma) states) then None      (* not total *)
           else let D := mkTDFA states sigma (map (fun t => let '(p, a, q) := t in ((p, a), q)) (a_trans A)) (hd [] (a_init A)) (a_final A) in
                if tdfa_wf_b D then Some D else None
         end.

(* ---- NFABuilder ---- *)
Definition group_nfa (trs : list (token * token * token)) : list ((token * token) * list token) :=
  fold_left (fun d t => let '(p, a, q) := t in
               match lookup (p, a) d with Some s => update (p, a) (add q s) d | None => d ++ [((p, a), [q])] end) trs [].
(* an NFA over tokens: the epsilon *symbol* is a token; Model.NFA uses nat symbols, so the result is kept in a record of its own *)
Record tnfa := mkTNFA { tnQ : list token; tnS : list token; tnD : list ((token * token) * list token); tnq0 : token; tnF : list token; tneps : token }.
Definition tnfa_wf_b (N : tnfa) : bool :=
  mem (tnq0 N) (tnQ N) && subsetb (tnF N) (tnQ N) && negb (mem (tneps N) (tnS N)) &&
  forallb (fun e => let '((q, a), s) := e in mem q (tnQ N) && (mem a (tnS N) || eqb a (tneps N)) && subsetb s (tnQ N)) (tnD N).
Definition build_nfa (state_re : token -> bool) (A : automaton) : option tnfa :=
  let states := states_or_used A in
  if negb (check_common state_re states A) then None
  else match parse_symbol A kw_epsilon c_eps [c_underscore] with
       | None => None
       | Some eps =>
         let used := dedup (filter (fun a => negb (eqb a eps)) (map (fun t => let '(_, a, _) := t in a) (a_trans A))) in
         match get_symbol_set A kw_input_symbols used with
         | None => None
         | Some sigma =>
           if negb (forallb re_word sigma) then None
           else let N := mkTNFA states sigma (group_nfa (a_trans A)) (hd [] (a_init A)) (a_final A) eps in
                if tnfa_wf_b N then Some N else None
         end
       end.

(* ---- PDABuilder: labels are a,uv ---- *)
Record tpda := mkTPDA { tpQ : list token; tpS : list token; tpG : list token;
                        tpD : list (token * token * token * token * token);   (* p, a, u, q, v *)
                        tpq0 : token; tpF : list token; tpeps : token }.
Definition lbl (t : token) (i : nat) : token := match nth_error t i with Some c => [c] | None => [] end.
Definition tpda_wf_b (P : tpda) : bool :=
  mem (tpq0 P) (tpQ P) && negb (mem (tpeps P) (tpS P)) && negb (mem (tpeps P) (tpG P)) && subsetb (tpF P) (tpQ P) &&
  forallb (fun t => let '(p, a, u, q, v) := t in
     mem p (tpQ P) && (mem a (tpS P) || eqb a (tpeps P)) && (mem u (tpG P) || eqb u (tpeps P)) && mem q (tpQ P) && (mem v (tpG P) || eqb v (tpeps P))) (tpD P).
Definition build_pda (state_re : token -> bool) (A : automaton) : option tpda :=
  let states := states_or_used A in
  if negb (check_common state_re states A) then None
  else match parse_symbol A kw_epsilon c_eps [c_underscore] with
       | None => None
       | Some eps =>
         let labels := map (fun t => let '(_, a, _) := t in a) (a_trans A) in
         let used_in := dedup (filter (fun a => negb (eqb a eps)) (map (fun l => lbl l 0) labels)) in
         let used_st := dedup (filter (fun a => negb (eqb a eps)) (flat_map (fun l => [lbl l 2; lbl l 3]) labels)) in
         match get_symbol_set A kw_input_symbols used_in, get_symbol_set A kw_stack_symbols used_st with
         | Some sigma, Some gamma =>
           if negb (forallb re_word sigma) then None
           else let P := mkTPDA states sigma gamma (dedup (map (fun t => let '(p, l, q) := t in (p, lbl l 0, lbl l 2, q, lbl l 3)) (a_trans A)))
                                (hd [] (a_init A)) (a_final A) eps in
                if tpda_wf_b P then Some P else None
         | _, _ => None
         end
       end.

(* ---- TMBuilder: labels are ab,d ---- *)
Record ttm := mkTTM { ttQ : list token; ttS : list token; ttG : list token;
                      ttD : list ((token * token) * (token * token * bool));   (* (p, a) -> (q, b, is_L) ; a later line overwrites *)
                      ttq0 : token; ttqa : token; ttqr : token; ttblank : token }.
Definition ttm_wf_b (T : ttm) : bool :=
  mem (ttq0 T) (ttQ T) && mem (ttqa T) (ttQ T) && mem (ttqr T) (ttQ T) && negb (eqb (ttqr T) (ttqa T)) &&
  negb (mem (ttblank T) (ttS T)) && mem (ttblank T) (ttG T) && subsetb (ttS T) (ttG T) &&
  forallb (fun e => let '((p, a), (q, b, _)) := e in mem p (ttQ T) && mem a (ttG T) && mem q (ttQ T) && mem b (ttG T)) (ttD T).
Fixpoint fresh_named (hint : token) (states : list token) (fuel i : nat) : token :=
  match fuel with
  | 0 => hint
  | S f => let cand := hint ++ digits i in if mem cand states then fresh_named hint states f (S i) else cand
  end.
Definition fresh_state_tok (states : list token) (hint : token) : token :=
  if mem hint states then fresh_named hint states (S (length states)) 1 else hint.
Definition build_tm (state_re : token -> bool) (A : automaton) : option ttm :=
  match get_single A kw_accept (fresh_state_tok (a_states A) kw_accept), get_single A kw_reject (fresh_state_tok (a_states A) kw_reject) with
  | Some qa, Some qr =>
    let states := match a_states A with [] => union (used_states A) [qa; qr] | s => s end in
    if negb (check_common state_re states A) then None
    else match parse_symbol A kw_blank c_box [c_underscore] with
         | None => None
         | Some blank =>
           let labels := map (fun t => let '(_, a, _) := t in a) (a_trans A) in
           let used_tape := dedup (flat_map (fun l => [lbl l 0; lbl l 1]) labels) in
           match get_symbol_set A kw_tape_symbols used_tape with
           | None => None
           | Some tape =>
             let sigma := match lookup kw_input_symbols (a_items A) with
                          | Some declared => dedup declared
                          | None => filter (fun a => negb (eqb a blank)) tape
                          end in
             let gamma := add blank tape in
             let delta := fold_left (fun d t => let '(p, l, q) := t in
                             update (p, lbl l 0) (q, lbl l 1, match nth_error l 3 with Some c => Nat.eqb c c_L | None => false end) d) (a_trans A) [] in
             let T := mkTTM states sigma gamma delta (hd [] (a_init A)) qa qr blank in
             if ttm_wf_b T then Some T else None
           end
         end
  | _, _ => None
  end.

(* ---- the four parsers ---- *)
Definition parse_dfa_with (state_re : token -> bool) (text : list line) : option tdfa :=
  (* parse_dfa passes dfa_keywords() (fix F18; before it the parser fell back to the keywords of all four formats) *)
  match parse_automaton state_re re_any [kw_input_symbols] text with Some A => build_dfa state_re A | None => None end.
Definition parse_dfa (text : list line) := parse_dfa_with re_word text.
Definition parse_nfa (text : list line) : option tnfa :=
  match parse_automaton re_word re_any [kw_input_symbols; kw_epsilon] text with Some A => build_nfa re_word A | None => None end.
Definition parse_pda (text : list line) : option tpda :=
  match parse_automaton re_word re_pda_label [kw_input_symbols; kw_stack_symbols; kw_epsilon] text with Some A => build_pda re_word A | None => None end.
Definition parse_tm (text : list line) : option ttm :=
  match parse_automaton re_word re_tm_label [kw_input_symbols; kw_tape_symbols; kw_blank; kw_accept; kw_reject] text with Some A => build_tm re_word A | None => None end.
