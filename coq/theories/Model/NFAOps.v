(* Model of nfa_union, nfa_concatenation, nfa_repetition (gambatools.nfa_algorithms, as repaired by fix F9: the
   result uses the epsilon symbol of the first operand and re-keys the other operand's epsilon moves to it, the
   transition sets are copied, and the new state is drawn from the identifier generator until it is not an
   operand state) and of RegexpToNFAGenerator / regexp_to_nfa (gambatools.regexp_algorithms).
   The identifier generator is the stream `names` of the codes of 'q{index}', 'q{index+1}', ... .  Definitions only. *)
From GT Require Import Base.Prelude Model.NFA Model.Regexp.

Section Ops.
  Context {A : Type} `{Eqb A}.

  (* delta[k] |= s on an association list *)
  Definition nd_add (k : A * nat) (s : list A) (d : list ((A * nat) * list A)) : list ((A * nat) * list A) :=
    match lookup k d with
    | Some old => update k (union old s) d
    | None => d ++ [(k, dedup s)]
    end.
  (* copy the transitions of N into d, renaming N's epsilon symbol to eps *)
  Definition copy_trans (eps : nat) (N : nfa A) (d : list ((A * nat) * list A)) : list ((A * nat) * list A) :=
    fold_left (fun d e => let '((q, a), s) := e in nd_add (q, if Nat.eqb a (neps N) then eps else a) s d) (nD N) d.

  (* draw names from the generator until one is not in Q: returns the name and the rest of the stream *)
  Fixpoint gen_fresh (Q : list A) (names : list A) : option (A * list A) :=
    match names with
    | [] => None
    | x :: rest => if mem x Q then gen_fresh Q rest else Some (x, rest)
    end.

  (* NFA constructor: _check_validity as a boolean; None = AssertionError *)
  Definition mk_checked (N : nfa A) : option (nfa A) := if nfa_wf_b N then Some N else None.

  Definition nfa_repetition (names : list A) (N : nfa A) : option (nfa A * list A) :=
    match gen_fresh (nQ N) names with
    | None => None
    | Some (q0, rest) =>
      let eps := neps N in
      let F := union (nF N) [q0] in
      let d1 := fold_left (fun d q => nd_add (q, eps) [nq0 N] d) F (copy_trans eps N []) in
      let d2 := match lookup (q0, eps) d1 with Some _ => update (q0, eps) [nq0 N] d1 | None => d1 ++ [((q0, eps), [nq0 N])] end in
      match mk_checked (mkNFA (union (nQ N) [q0]) (nS N) d2 q0 F eps) with
      | Some R => Some (R, rest)
      | None => None
      end
    end.

  Definition nfa_union (names : list A) (N1 N2 : nfa A) : option (nfa A * list A) :=
    if negb (disjointb (nQ N1) (nQ N2)) then None
    else match gen_fresh (union (nQ N1) (nQ N2)) names with
    | None => None
    | Some (q0, rest) =>
      let eps := neps N1 in
      let d := copy_trans eps N2 (copy_trans eps N1 []) in
      let d' := match lookup (q0, eps) d with Some _ => update (q0, eps) (dedup [nq0 N1; nq0 N2]) d | None => d ++ [((q0, eps), dedup [nq0 N1; nq0 N2])] end in
      match mk_checked (mkNFA (union (union (nQ N1) (nQ N2)) [q0]) (union (nS N1) (nS N2)) d' q0 (union (nF N1) (nF N2)) eps) with
      | Some R => Some (R, rest)
      | None => None
      end
    end.

  Definition nfa_concatenation (N1 N2 : nfa A) : option (nfa A) :=
    if negb (disjointb (nQ N1) (nQ N2)) then None
    else
      let eps := neps N1 in
      let d := copy_trans eps N2 (copy_trans eps N1 []) in
      let d' := fold_left (fun d q => nd_add (q, eps) [nq0 N2] d) (nF N1) d in
      mk_checked (mkNFA (union (nQ N1) (nQ N2)) (union (nS N1) (nS N2)) d' (nq0 N1) (nF N2) eps).

  (* ---- RegexpToNFAGenerator.generate: eps0 = Symbol('') ---- *)
  Fixpoint re_to_nfa (eps0 : nat) (r : re) (names : list A) : option (nfa A * list A) :=
    match r with
    | Zero => match names with q0 :: rest => Some (mkNFA [q0] [] [] q0 [] eps0, rest) | [] => None end
    | One => match names with q0 :: rest => Some (mkNFA [q0] [] [] q0 [q0] eps0, rest) | [] => None end
    | Sym a => match names with
               | q0 :: q1 :: rest => if eqb q0 q1 then None else Some (mkNFA [q0; q1] [a] [((q0, a), [q1])] q0 [q1] eps0, rest)
               | _ => None
               end
    | Star r1 => match re_to_nfa eps0 r1 names with
                 | Some (N, rest) => nfa_repetition rest N
                 | None => None
                 end
    | Sum r1 r2 => match re_to_nfa eps0 r1 names with
                   | Some (N1, rest1) => match re_to_nfa eps0 r2 rest1 with
                                         | Some (N2, rest2) => nfa_union rest2 N1 N2
                                         | None => None
                                         end
                   | None => None
                   end
    | Cat r1 r2 => match re_to_nfa eps0 r1 names with
                   | Some (N1, rest1) => match re_to_nfa eps0 r2 rest1 with
                                         | Some (N2, rest2) => match nfa_concatenation N1 N2 with
                                                               | Some N => Some (N, rest2)
                                                               | None => None
                                                               end
                                         | None => None
                                         end
                   | None => None
                   end
    end.
End Ops.
