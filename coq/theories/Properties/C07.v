(* placeholder: statements are added when Proofs exist *)
From GT Require Import Base.Prelude Model.CFG Model.Chomsky Model.CYK.
