From GT Require Import Base.Prelude Model.NFA Model.PDA Model.CFG Model.Chomsky Model.CYK Model.PDAConv Judge.Common.

Definition LIM := 150.
Definition pda_struct_eqb (P1 P2 : pda) : bool :=
  seteqb (pQ P1) (pQ P2) && seteqb (pSg P1) (pSg P2) && seteqb (pGm P1) (pGm P2) && Nat.eqb (pq0 P1) (pq0 P2) &&
  seteqb (pF P1) (pF P2) && Nat.eqb (peps P1) (peps P2) && seteqb (transitions P1) (transitions P2).

(* bounded language comparison with exact references on both sides: Some true / Some false, None = a closure was truncated *)
Definition pda_lang_agree (P P' : pda) (n : nat) : option bool :=
  let '(L1, t1) := pda_words pick_head P LIM n in
  let '(L2, t2) := pda_words pick_head P' LIM n in
  if t1 || t2 then None else Some (seteqb L1 L2).

(* every accepting configuration reached on a word of length <= n has an empty stack *)
Definition accepts_only_empty (P' : pda) (n : nat) : bool :=
  forallb (fun w =>
    let '(R0, _) := pda_eclose pick_head P' LIM [(pq0 P', [])] in
    let '(R, _) := pda_run pick_head P' LIM w R0 false in
    forallb (fun c => negb (mem (fst c) (pF P')) || match snd c with [] => true | _ => false end) R) (words_upto (pSg P') n).

(* kind: 1 one accepting state, 2 push/pop, 3 empty stack *)
Definition shape_ok (kind : nat) (P' : pda) (n : nat) : bool :=
  match kind with
  | 1 => Nat.eqb (length (dedup (pF P'))) 1
  | 2 => pda_is_push_pop P' && Nat.eqb (length (dedup (pF P'))) 1
  | _ => accepts_only_empty P' n
  end.

Definition judge_conv (kind : nat) (P : pda) (oP' : option pda) (model : option pda) (unchanged : bool) (n c : nat) : nat :=
  match oP', model with
  | None, None => 0                                  (* both reject: marker clash *)
  | None, Some _ => c
  | Some P', _ =>
    if negb unchanged then c + 1
    else if negb (pda_wf_b P') then c + 2
    else if negb (shape_ok kind P' n) then c + 3
    else match pda_lang_agree P P' n with
         | Some false => c + 4
         | Some true => match model with Some M => if pda_struct_eqb P' M then 0 else 1 | None => c + 5 end
         | None => match model with Some M => if pda_struct_eqb P' M then 0 else 1 | None => c + 5 end
         end
  end.

Definition cfg_struct_eqb10 (G1 G2 : cfg) : bool :=
  seteqb (gV G1) (gV G2) && seteqb (gSg G1) (gSg G2) && Nat.eqb (gS G1) (gS G2) &&
  seteqb (map (fun r => (rvar r, rrhs r)) (gR G1)) (map (fun r => (rvar r, rrhs r)) (gR G2)).

Definition judge_cfg (P : pda) (oG : option cfg) (model : option cfg) (unchanged : bool) (n : nat) (stream : list nat) (deep : bool) : nat :=
  match oG, model with
  | None, None => 0
  | None, Some _ => 40
  | Some G, _ =>
    if negb unchanged then 41
    else if negb (cfg_wf_b G) then 42
    else match model with
         | Some M => if cfg_struct_eqb10 G M then
                       (* the model grammar itself is compared with the PDA on the bounded language when `deep` is set *)
                       if deep then
                         match cfg_words (fun l => l) stream G n, pda_words pick_head P LIM n with
                         | Some L1, (L2, false) => check (seteqb L1 L2) 44
                         | _, _ => 1
                         end
                       else 0
                     else if negb deep then 1     (* structure differs (naming order of the intermediate states); the language oracle is only run on the small `deep` cases *)
                     else match cfg_words (fun l => l) stream G n, pda_words pick_head P LIM n with
                          | Some L1, (L2, false) => if seteqb L1 L2 then 1 else 44
                          | _, _ => 1
                          end
         | None => 45
         end
  end.

Definition judge_C10 (P : pda) (n : nat)
           (one : option pda * list nat) (pp : option pda * list nat * nat * bool) (es : option pda * list nat * nat * bool)
           (cf : option cfg * list nat * nat * nat * bool) (stream : list nat) (deep : bool) : nat :=
  worst_code [
    check (pda_wf_b P) 9;
    (let '(o, st) := one in judge_conv 1 P o (option_map fst (to_one_accept st P)) true n 10);
    (let '(o, st, dummy, unch) := pp in judge_conv 2 P o (option_map fst (to_push_pop dummy st P)) unch n 20);
    (let '(o, st, bottom, unch) := es in judge_conv 3 P o (option_map fst (to_empty_stack bottom st P)) unch n 30);
    (let '(o, st, bottom, dummy, unch) := cf in judge_cfg P o (pda_to_cfg bottom dummy st P) unch n stream deep) ].

Definition explain_C10 (P : pda) (n : nat) (st : list nat) (bottom dummy : nat) :=
  (pda_words pick_head P LIM n, to_empty_stack bottom st P, to_push_pop dummy st P).
