(* Design note, not part of the machinery: the specification-level definitions of DESIGN.md §6
   and the *shape* of the main theorems, type-checked.  Model functions do not exist yet, so
   inside each Section they are Variables; the Definitions `…_statement : Prop` are what the
   files theories/Properties/Cxx.v will state about the real models.  Nothing here is an axiom:
   the file contains only Definitions and Inductives (Section variables are discharged). *)
From Coq Require Import List Bool Arith Lia Permutation.
Import ListNotations.
Set Implicit Arguments.

Definition sym := nat.
Definition word := list sym.
Definition word_over (Sg : list sym) (w : word) : Prop := Forall (fun a => In a Sg) w.
Definition seteq {A} (l1 l2 : list A) : Prop := forall x, In x l1 <-> In x l2.

(* ------------------------------------------------------------------ DFA / NFA (C01, C03, C04, C14, C20) *)
Section Automata.
  Variable St : Type.

  Record dfa := { dQ : list St; dSg : list sym; dDelta : list ((St * sym) * St); dq0 : St; dF : list St }.
  Definition dstep (D : dfa) (p : St) (a : sym) (q : St) : Prop := In ((p, a), q) (dDelta D).

  Inductive drun (D : dfa) : St -> word -> St -> Prop :=
  | drun_nil q : drun D q [] q
  | drun_cons p a q w r : dstep D p a q -> drun D q w r -> drun D p (a :: w) r.
  Definition dfa_lang (D : dfa) (w : word) : Prop := exists qf, drun D (dq0 D) w qf /\ In qf (dF D).

  (* the class invariant of DFA._check_validity, as a Prop (the model has a boolean mirror) *)
  Definition dfa_wf (D : dfa) : Prop :=
    In (dq0 D) (dQ D) /\ incl (dF D) (dQ D) /\
    (forall p a q, dstep D p a q -> In p (dQ D) /\ In a (dSg D) /\ In q (dQ D)) /\
    (forall p a q q', dstep D p a q -> dstep D p a q' -> q = q') /\
    (forall p a, In p (dQ D) -> In a (dSg D) -> exists q, dstep D p a q).

  Record nfa := { nQ : list St; nSg : list sym; nDelta : list ((St * sym) * list St); nq0 : St; nF : list St; neps : sym }.
  Definition nstep (N : nfa) (p : St) (a : sym) (q : St) : Prop := exists Q1, In ((p, a), Q1) (nDelta N) /\ In q Q1.
  Inductive eps_star (N : nfa) : St -> St -> Prop :=
  | es_refl q : eps_star N q q
  | es_step p q r : nstep N p (neps N) q -> eps_star N q r -> eps_star N p r.
  Inductive nreach (N : nfa) : St -> word -> St -> Prop :=
  | nr_nil q : nreach N q [] q
  | nr_eps p q w r : nstep N p (neps N) q -> nreach N q w r -> nreach N p w r
  | nr_sym p a q w r : a <> neps N -> nstep N p a q -> nreach N q w r -> nreach N p (a :: w) r.
  Definition nfa_lang (N : nfa) (w : word) : Prop := exists qf, nreach N (nq0 N) w qf /\ In qf (nF N).
  Definition nfa_wf (N : nfa) : Prop :=
    In (nq0 N) (nQ N) /\ incl (nF N) (nQ N) /\ ~ In (neps N) (nSg N) /\
    (forall p a q, nstep N p a q -> In p (nQ N) /\ (In a (nSg N) \/ a = neps N) /\ In q (nQ N)).

  (* Myhill-Nerode equivalence of states, distinguishability, minimality (C04) *)
  Definition accepts_from (D : dfa) (q : St) (w : word) : Prop := exists qf, drun D q w qf /\ In qf (dF D).
  Definition mn_equiv (D : dfa) (p q : St) : Prop := forall w, word_over (dSg D) w -> (accepts_from D p w <-> accepts_from D q w).
  Definition pairwise_distinguishable (D : dfa) : Prop := forall p q, In p (dQ D) -> In q (dQ D) -> mn_equiv D p q -> p = q.
  Definition reachable (D : dfa) (q : St) : Prop := exists w, word_over (dSg D) w /\ drun D (dq0 D) w q.
End Automata.

Definition lang_equiv_on (Sg : list sym) (L1 L2 : word -> Prop) : Prop := forall w, word_over Sg w -> (L1 w <-> L2 w).

Section C01_C03_C04_shapes.
  Variable dfa_accepts : dfa nat -> word -> option bool.
  Variable nfa_accepts : nfa nat -> word -> bool.
  Variable eclose : (list nat -> option (nat * list nat)) -> nat -> nfa nat -> list nat -> option (list nat).
  Definition pick_ok {A} (pick : list A -> option (A * list A)) : Prop :=
    pick [] = None /\ forall l, l <> [] -> exists x r, pick l = Some (x, r) /\ (forall y, In y l <-> y = x \/ In y r) /\ length r < length l.

  Definition C01_dfa_statement : Prop := forall D w, dfa_wf D -> word_over (dSg D) w ->
      exists b, dfa_accepts D w = Some b /\ (b = true <-> dfa_lang D w).
  Definition C01_eclose_statement : Prop := forall pick N S0, pick_ok pick -> nfa_wf N -> incl S0 (nQ N) ->
      exists r, eclose pick (S (length (nQ N))) N S0 = Some r /\ forall q, In q r <-> exists s, In s S0 /\ eps_star N s q.
  Definition C01_nfa_statement : Prop := forall N w, nfa_wf N -> word_over (nSg N) w ->
      (nfa_accepts N w = true <-> nfa_lang N w).

  Variable nfa_to_dfa : (list (list nat) -> option (list nat * list (list nat))) -> nat -> nfa nat -> option (dfa (list nat)).
  Definition C03_statement : Prop := forall pick fuel N D, pick_ok pick -> nfa_wf N -> nfa_to_dfa pick fuel N = Some D ->
      dfa_wf D /\ seteq (dSg D) (nSg N) /\ lang_equiv_on (nSg N) (dfa_lang D) (nfa_lang N) /\
      (forall q, In q (dq0 D) <-> eps_star N (nq0 N) q) /\
      (forall S, In S (dQ D) -> reachable D S).
  Definition C03_termination_statement : Prop := forall pick N, pick_ok pick -> nfa_wf N ->
      exists D, nfa_to_dfa pick (S (2 ^ length (nQ N))) N = Some D.

  (* one statement shape for the three minimisers; `order` = the list order in which Q (and Sigma) reach the routine *)
  Variable minimise : (list (list nat * sym) -> option ((list nat * sym) * list (list nat * sym))) -> nat -> dfa nat -> option (dfa (list nat)).
  Definition C04_statement : Prop := forall pick fuel D D', pick_ok pick -> dfa_wf D -> minimise pick fuel D = Some D' ->
      dfa_wf D' /\ seteq (dSg D') (dSg D) /\ lang_equiv_on (dSg D) (dfa_lang D') (dfa_lang D) /\
      pairwise_distinguishable D' /\
      (* states of D' are exactly the MN classes of all states of D *)
      (forall C, In C (dQ D') -> C <> [] /\ incl C (dQ D) /\ forall p q, In p C -> In q (dQ D) -> (In q C <-> mn_equiv D p q)) /\
      (forall p, In p (dQ D) -> exists C, In C (dQ D') /\ In p C).
  Definition C04_minimal_statement : Prop := forall pick fuel D D', pick_ok pick -> dfa_wf D -> (forall q, In q (dQ D) -> reachable D q) ->
      minimise pick fuel D = Some D' -> NoDup (dQ D') ->
      forall (D2 : dfa nat), dfa_wf D2 -> seteq (dSg D2) (dSg D) -> NoDup (dQ D2) ->
        lang_equiv_on (dSg D) (dfa_lang D2) (dfa_lang D) -> length (dQ D') <= length (dQ D2).
  Definition C04_order_statement : Prop := forall pick pick' fuel D1 D2 M1 M2, pick_ok pick -> pick_ok pick' -> dfa_wf D1 ->
      Permutation (dQ D1) (dQ D2) -> Permutation (dSg D1) (dSg D2) -> Permutation (dDelta D1) (dDelta D2) ->
      dq0 D1 = dq0 D2 -> Permutation (dF D1) (dF D2) ->
      minimise pick fuel D1 = Some M1 -> minimise pick' fuel D2 = Some M2 ->
      lang_equiv_on (dSg D1) (dfa_lang M1) (dfa_lang M2) /\ (forall C, (exists C1, In C1 (dQ M1) /\ seteq C C1) <-> (exists C2, In C2 (dQ M2) /\ seteq C C2)).

  (* C20 *)
  Definition iso_reach (D1 D2 : dfa nat) : Prop := exists f : nat -> nat,
      f (dq0 D1) = dq0 D2 /\
      (forall p, reachable D1 p -> reachable D2 (f p)) /\
      (forall q, reachable D2 q -> exists p, reachable D1 p /\ f p = q) /\
      (forall p p', reachable D1 p -> reachable D1 p' -> f p = f p' -> p = p') /\
      (forall p a q, reachable D1 p -> dstep D1 p a q -> dstep D2 (f p) a (f q)) /\
      (forall p, reachable D1 p -> (In p (dF D1) <-> In (f p) (dF D2))).
  Variable iso1 : (list (nat * nat) -> option ((nat * nat) * list (nat * nat))) -> nat -> dfa nat -> dfa nat -> option bool.
  Definition C20_statement : Prop := forall pick fuel D1 D2 b, pick_ok pick -> dfa_wf D1 -> dfa_wf D2 -> seteq (dSg D1) (dSg D2) ->
      iso1 pick fuel D1 D2 = Some b -> (b = true <-> iso_reach D1 D2).
  Definition C20_termination_statement : Prop := forall pick D1 D2, pick_ok pick -> dfa_wf D1 -> dfa_wf D2 -> seteq (dSg D1) (dSg D2) ->
      iso1 pick (S (length (dQ D1) * length (dQ D2))) D1 D2 <> None.
End C01_C03_C04_shapes.

(* ------------------------------------------------------------------ regular expressions (C05, C06) *)
Inductive re := Zero | One | Sym (a : sym) | Plus (r s : re) | Cat (r s : re) | Star (r : re).
Inductive re_lang : re -> word -> Prop :=
| L_one : re_lang One []
| L_sym a : re_lang (Sym a) [a]
| L_plus_l r s w : re_lang r w -> re_lang (Plus r s) w
| L_plus_r r s w : re_lang s w -> re_lang (Plus r s) w
| L_cat r s u v : re_lang r u -> re_lang s v -> re_lang (Cat r s) (u ++ v)
| L_star_nil r : re_lang (Star r) []
| L_star_app r u v : re_lang r u -> re_lang (Star r) v -> re_lang (Star r) (u ++ v).
Fixpoint re_nodes (r : re) : nat :=
  match r with Zero | One | Sym _ => 1 | Star r => S (re_nodes r) | Plus r s | Cat r s => S (re_nodes r + re_nodes s) end.

Section C05_C06_shapes.
  Variable acc : re -> word -> bool.
  Variable simplify : re -> re.
  Definition C05_match_statement : Prop := forall r w, acc r w = true <-> re_lang r w.
  Definition C05_simplify_statement : Prop := forall r, (forall w, re_lang (simplify r) w <-> re_lang r w) /\ re_nodes (simplify r) <= re_nodes r.
  Variable re_to_nfa : re -> nfa nat.
  Definition C06_re_to_nfa_statement : Prop := forall r, nfa_wf (re_to_nfa r) /\ forall w, nfa_lang (re_to_nfa r) w <-> re_lang r w.
  Variable dfa_to_regexp : list nat (* rip order *) -> dfa nat -> option re.   (* None = the start/accept name clash the code asserts on *)
  Definition C06_dfa_to_regexp_statement : Prop := forall order D r, dfa_wf D -> Permutation order (dQ D) -> NoDup (dQ D) ->
      dfa_to_regexp order D = Some r -> lang_equiv_on (dSg D) (re_lang r) (dfa_lang D).
End C05_C06_shapes.

(* ------------------------------------------------------------------ context-free grammars (C07, C08) *)
Record gsym := { is_var : bool; gname : nat }.
Definition T (a : nat) := {| is_var := false; gname := a |}.
Definition V (x : nat) := {| is_var := true; gname := x |}.
Record cfg := { gV : list nat; gSg : list nat; gR : list (nat * list gsym); gS : nat }.
Inductive gstep (G : cfg) : list gsym -> list gsym -> Prop :=
| gstep_intro u A rhs v : In (A, rhs) (gR G) -> gstep G (u ++ V A :: v) (u ++ rhs ++ v).
Inductive gstar (G : cfg) : list gsym -> list gsym -> Prop :=
| gstar_refl x : gstar G x x
| gstar_step x y z : gstep G x y -> gstar G y z -> gstar G x z.
Definition cfg_lang (G : cfg) (w : word) : Prop := gstar G [V (gS G)] (map T w).
Definition cfg_wf (G : cfg) : Prop :=
  (forall A rhs, In (A, rhs) (gR G) -> In A (gV G) /\ forall s, In s rhs -> if is_var s then In (gname s) (gV G) else In (gname s) (gSg G)) /\
  (forall x, In x (gV G) -> ~ In x (gSg G)).              (* names of variables and terminals are disjoint *)
Definition rule_cnf (rhs : list gsym) : Prop :=
  rhs = [] \/ (exists a, rhs = [T a]) \/ (exists B C, rhs = [V B; V C]).
Definition is_chomsky (G : cfg) : Prop :=
  (forall A rhs, In (A, rhs) (gR G) -> rule_cnf rhs /\ ~ In (V (gS G)) rhs /\ (rhs = [] -> A = gS G)).
Definition subword (w : word) (i j : nat) : word := firstn (S j - i) (skipn i w).   (* w[i..j] inclusive *)

Section C07_C08_shapes.
  Variable cyk : cfg -> word -> nat -> nat -> list nat.
  Variable cfg_accepts : cfg -> word -> bool.
  Variable to_chomsky : list nat (* iteration order of V in unit elimination *) -> cfg -> cfg.
  Definition C07_cell_statement : Prop := forall G w i j A, cfg_wf G -> is_chomsky G -> i <= j -> j < length w ->
      (In A (cyk G w i j) <-> In A (gV G) /\ gstar G [V A] (map T (subword w i j))).
  Definition C07_accepts_statement : Prop := forall G w, cfg_wf G -> (cfg_accepts G w = true <-> cfg_lang G w).
  Definition C08_statement : Prop := forall order G, cfg_wf G -> Permutation order (gV G) ->
      let G' := to_chomsky order G in
      cfg_wf G' /\ is_chomsky G' /\ seteq (gSg G') (gSg G) /\ incl (gV G) (gV G') /\ forall w, cfg_lang G' w <-> cfg_lang G w.
End C07_C08_shapes.

(* ------------------------------------------------------------------ PDA (C09, C10) *)
Record pda := { pQ : list nat; pSg : list sym; pGm : list sym; pDelta : list ((nat * sym * sym) * (nat * sym)); pq0 : nat; pF : list nat; peps : sym }.
Definition pconf := (nat * list sym)%type.                       (* stack top at the END, as stack[-1] *)
Definition pop_push (eps u v : sym) (st st' : list sym) : Prop :=
  exists base, st = (if Nat.eqb u eps then base else base ++ [u]) /\ st' = (if Nat.eqb v eps then base else base ++ [v]).
Definition pmove (P : pda) (a : sym) (c c' : pconf) : Prop :=
  exists u v, In ((fst c, a, u), (fst c', v)) (pDelta P) /\ pop_push (peps P) u v (snd c) (snd c').
Inductive preach (P : pda) : pconf -> word -> pconf -> Prop :=
| pr_nil c : preach P c [] c
| pr_eps c c' w c'' : pmove P (peps P) c c' -> preach P c' w c'' -> preach P c w c''
| pr_sym c a c' w c'' : a <> peps P -> pmove P a c c' -> preach P c' w c'' -> preach P c (a :: w) c''.
Definition pda_lang (P : pda) (w : word) : Prop := exists q st, preach P (pq0 P, []) w (q, st) /\ In q (pF P).
Definition eps_closure_fits (P : pda) (R : list pconf) (limit : nat) : Prop :=
  exists C : list pconf, NoDup C /\ length C <= limit /\ forall c, (exists r, In r R /\ preach P r [] c) -> In c C.

Section C09_shapes.
  (* returns (verdict, some closure was truncated) *)
  Variable pda_accepts : (list pconf -> option (pconf * list pconf)) -> nat -> pda -> word -> bool * bool.
  Definition C09_sound_statement : Prop := forall pick limit P w, pick_ok pick ->
      fst (pda_accepts pick limit P w) = true -> pda_lang P w.
  Definition C09_complete_statement : Prop := forall pick limit P w, pick_ok pick -> word_over (pSg P) w ->
      snd (pda_accepts pick limit P w) = false -> (pda_lang P w -> fst (pda_accepts pick limit P w) = true).
  (* and: truncation cannot happen when every closure along w fits the limit (stated on the model's internal closure calls) *)
End C09_shapes.

(* ------------------------------------------------------------------ TM (C11) *)
Record tm := { tQ : list nat; tSg : list sym; tGm : list sym; tDelta : list ((nat * sym) * (nat * sym * bool (* true = L *))); tq0 : nat; tacc : nat; trej : nat; tblank : sym }.
Definition tconf := (nat * list sym * nat)%type.
Definition halting (M : tm) (q : nat) : Prop := q = tacc M \/ q = trej M.
Definition tm_init (M : tm) (w : word) : tconf := (tq0 M, (if w then [tblank M] else w), 0).
Section TMstep.
  Variable lookup : tm -> nat -> sym -> option (nat * sym * bool).
  Definition write (tape : list sym) (h : nat) (b : sym) : list sym := firstn h tape ++ b :: skipn (S h) tape.
  Definition tm_step_spec (M : tm) (c c' : tconf) : Prop :=
    let '(p, tape, h) := c in
    let a := nth h tape (tblank M) in
    let '(q, b, goleft) := match lookup M p a with Some x => x | None => (trej M, a, false) end in
    let h' := if goleft then Nat.pred h else S h in
    let tape' := write tape h b in
    c' = (q, (if Nat.eqb h' (length tape') then tape' ++ [tblank M] else tape'), h').
End TMstep.
(* C11 statement shape: tm_accepts M w k = Some true  <->  exists i, 1 <= i <= k /\ state (iter tm_step i init) = accept /\ no halting state at 1..i-1 ;
   likewise Some false / reject ; None otherwise ; trace clauses ; monotonicity in k.  (q0 halting: separate lemma, F11.) *)
