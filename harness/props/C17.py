"""C17 - parsers build exactly what was written and reject malformed descriptions (token-level model Model/Parser.v)."""
import coqlit as L
import gen as G
import conv
import textmodel as TM

COQ_IMPORTS = ['Model.Tokens', 'Model.Parser', 'Judge.C17_judge']
PDA_FREE = True      # no PDA is involved: the recycling pass runs with GambaTools.pda_epsilon_closure_max_iterations = 3
RULE = ('random DFAs / NFAs / PDAs / TMs (1-4 states, names from \\w+ incl. digits, underscores, non-ASCII letters and keyword-like names) rendered in random layouts (line order shuffled, optional declarations omitted when derivable, '
        'comment and blank lines, labels of a state pair split over several lines, extra spaces), and single-fault corruptions of renderings (dropped / duplicated / swapped line or token, undeclared state or symbol, second initial state, '
        'no initial state, duplicate declaration, incomplete transition, malformed label, non-deterministic or non-total DFA, duplicate TM transition). Observed: parse_dfa / parse_nfa / parse_pda / parse_tm (object or exception). '
        'Relation: the model parser returns the same automaton (all fields) or rejects exactly when the implementation raises; a faithful layout must give back the rendered automaton; every returned object satisfies the class invariant. '
        'Non-trivial = the description has >= 2 transitions; distinct by text.')
RULE += ' Added after the seeded rounds: Turing machines whose halting states have the default names accept / reject, rendered with the optional declarations omitted.'
CODES = {10: 'parse_dfa differs from the model parser (object or accept/reject verdict)', 11: 'parse_dfa of a faithful layout did not return the described DFA', 12: 'model DFA violates the class invariant (machinery)',
         20: 'parse_nfa differs from the model parser', 21: 'parse_nfa of a faithful layout did not return the described NFA', 22: 'model NFA violates the class invariant (machinery)',
         30: 'parse_pda differs from the model parser', 31: 'parse_pda of a faithful layout did not return the described PDA', 32: 'model PDA violates the class invariant (machinery)',
         40: 'parse_tm differs from the model parser', 41: 'parse_tm of a faithful layout did not return the described TM', 42: 'model TM violates the class invariant (machinery)'}
ASSUMPTIONS = ['single-character symbols in PDA / TM labels (label patterns)']
RESIDUE = 'str.split / strip, re.fullmatch on Unicode (character classification done by the harness), dict / set construction'
SHARD = 60


def names_pool(rng):
    return rng.choice([['q0', 'q1', 'q2', 'q3'], ['A', 'B', 'C_1', 'd2'], ['s', 'states1', 'final_', 'x'], ['p', 'q', 'é', 'r0'], ['accept', 'reject', 'q', 'r'], ['0', '1', '2', '3']])


def render(rng, kind, x, faithful=True):
    """returns (text, is_faithful)"""
    lines = []
    eps = x.get('eps')
    pairs = {}
    if kind == 'dfa':
        trs = [(q, a, t) for q, a, t in x['delta']]
    elif kind == 'nfa':
        trs = [(q, a, t) for q, a, ts in x['delta'] for t in ts]
    elif kind == 'pda':
        trs = [(p, '%s,%s%s' % (a, u, v), q) for p, a, u, q, v in x['delta']]
    else:
        trs = [(p, '%s%s,%s' % (a, b, d), q) for p, a, q, b, d in x['delta']]
    for p, a, q in trs:
        pairs.setdefault((p, q), []).append(a)
    for (p, q), labels in pairs.items():
        rng.shuffle(labels)
        while labels:
            k = rng.randint(1, len(labels))
            lines.append('%s %s %s' % (p, '  ' * rng.randint(0, 1) + q, ' '.join(labels[:k])))
            labels = labels[k:]
    used_states = set([x['q0']] + list(x.get('F', [])) + [s for p, a, q in trs for s in (p, q)])
    decl = []
    states_declared = True
    if kind == 'tm':
        # without a `states` line the states are the used ones plus the two halting states
        if set(x['Q']) == (set([s for p, a, q in trs for s in (p, q)]) | {x['qa'], x['qr']}) and x['q0'] in x['Q'] and rng.random() < 0.5:
            states_declared = False
    elif set(x['Q']) <= used_states and rng.random() < 0.4:
        states_declared = False
    if states_declared:
        qs = list(x['Q'])
        rng.shuffle(qs)
        decl.append('states ' + ' '.join(qs))
    decl.append('initial ' + x['q0'])
    if kind != 'tm':
        if x['F'] or rng.random() < 0.6:
            fs = list(x['F'])
            rng.shuffle(fs)
            decl.append('final ' + ' '.join(fs))
    else:
        # the accept / reject lines are optional: the defaults are the names `accept` / `reject` (when no declared state has that name)
        if not (x['qa'] == 'accept' and not states_declared and rng.random() < 0.6):
            decl.append('accept ' + x['qa'])
        if not (x['qr'] == 'reject' and not states_declared and rng.random() < 0.6):
            decl.append('reject ' + x['qr'])
    if kind in ('dfa', 'nfa'):
        used = set(a for p, a, q in trs if a != eps)
        if not (set(x['Sigma']) == used and rng.random() < 0.5):
            decl.append('input_symbols ' + ' '.join(x['Sigma']))
    if kind == 'pda':
        used = set(l[0] for p, l, q in trs if l[0] != eps)
        if not (set(x['Sigma']) == used and rng.random() < 0.5):
            decl.append('input_symbols ' + ' '.join(x['Sigma']))
        usedg = set(c for p, l, q in trs for c in (l[2], l[3]) if c != eps)
        if not (set(x['Gamma']) == usedg and rng.random() < 0.5):
            decl.append('stack_symbols ' + ' '.join(x['Gamma']))
    if kind == 'tm':
        decl.append('input_symbols ' + ' '.join(x['Sigma']))
        usedt = set(c for p, l, q in trs for c in (l[0], l[1]))
        if not (set(x['Gamma']) - {x['blank']} <= usedt and set(x['Gamma']) >= usedt and rng.random() < 0.4):
            decl.append('tape_symbols ' + ' '.join(x['Gamma']))
        anybox = any('□' in l for p, l, q in trs)
        if not ((x['blank'] == '□' and anybox) or (x['blank'] == '_' and not anybox)) or rng.random() < 0.5:
            decl.append('blank ' + x['blank'])
    if kind in ('nfa', 'pda'):
        anyeps = any('ε' in l for p, l, q in trs)
        if not ((eps == 'ε' and anyeps) or (eps == '_' and not anyeps)) or rng.random() < 0.5:
            decl.append('epsilon ' + eps)
    lines += decl
    rng.shuffle(lines)
    for _ in range(rng.randint(0, 2)):
        lines.insert(rng.randint(0, len(lines)), rng.choice(['% a comment', '', '   ', '%x y z']))
    return '\n'.join(lines)


def corrupt(rng, text):
    lines = text.split('\n')
    k = rng.randint(0, 11)
    i = rng.randrange(len(lines)) if lines else 0
    words = lines[i].split() if lines else []
    if k == 0 and lines:
        del lines[i]
    elif k == 1 and lines:
        lines.insert(rng.randint(0, len(lines)), lines[i])
    elif k == 2 and words:
        j = rng.randrange(len(words))
        words[j] = rng.choice(['zz', 'q9', 'ab', 'x,yz', 'aa,L', '?', 'é'])
        lines[i] = ' '.join(words)
    elif k == 3 and words:
        del words[rng.randrange(len(words))]
        lines[i] = ' '.join(words)
    elif k == 4:
        lines.append('initial ' + rng.choice(['q0', 'q1', 'zz', 'A']))
    elif k == 5:
        lines = [l for l in lines if not l.startswith('initial')]
    elif k == 6 and words:
        lines[i] = ' '.join(words[:2])
    elif k == 7 and words:
        words[-1] = words[-1][:-1]
        lines[i] = ' '.join(words)
    elif k == 8 and words:
        words.append(words[-1])
        lines[i] = ' '.join(words)
    elif k == 9 and lines:
        ws2 = [l.split() for l in lines if l.split() and l.split()[0] not in ('states', 'initial', 'final', 'input_symbols', 'epsilon', 'stack_symbols', 'tape_symbols', 'blank', 'accept', 'reject') and not l.startswith('%')]
        if ws2:
            w = rng.choice(ws2)
            lines.append(' '.join([w[0], rng.choice(['q0', 'q1', w[1]]), w[-1]]))
    elif k == 10 and words:
        words[0] = rng.choice(['states', 'final', 'epsilon', 'blank', 'input_symbols', 'accept'])
        lines[i] = ' '.join(words)
    else:
        lines.append(rng.choice(['states', 'final q0 q0', 'epsilon', 'epsilon a b', 'blank', 'accept q0 q1', 'input_symbols a a']))
    return '\n'.join(lines)


def random_obj(rng, kind):
    names = names_pool(rng)
    k = rng.randint(1, min(4, len(names)))
    Q = names[:k]
    if kind == 'dfa':
        return G.random_dfa(rng, k, rng.choice(['a', 'ab', 'xy', 'a1', '']), names=Q)
    if kind == 'nfa':
        e = rng.choice(['_', 'ε', 'e'])
        return G.random_nfa(rng, k, rng.choice(['a', 'ab', 'ab', ''] + (['aε', 'ε'] if e != 'ε' else [])), e, names=Q, peps=0.3)
    if kind == 'pda':
        p = G.random_pda(rng, k, rng.choice(['a', 'ab', '']), rng.choice(['x', 'xy', '$x', '#@', '%x', '&*']), rng.choice(['_', 'ε']), ntrans=rng.randint(0, 6))
        m = dict(zip(p['Q'], Q))
        p['Q'] = Q
        p['q0'] = m[p['q0']]
        p['F'] = [m[q] for q in p['F']]
        p['delta'] = [[m[t[0]], t[1], t[2], m[t[3]], t[4]] for t in p['delta']]
        return p
    blank = rng.choice(['_', '□'])
    sigma = rng.choice([['a'], ['a', 'b'], []])
    gamma = sorted(set(sigma + [blank] + (['□'] if blank == '_' and rng.random() < 0.2 else []) + (['x'] if rng.random() < 0.5 else []) + (rng.choice([['%'], ['$', '%'], ['#'], ['~', '!']]) if rng.random() < 0.4 else [])))
    halt = rng.choice([['acc', 'rej'], ['accept', 'reject'], ['accept', 'rej'], ['acc', 'reject']])    # 'accept' / 'reject' are the documented default names
    halt = [h for h in halt]
    if any(h in Q for h in halt):
        halt = ['acc', 'rej']
    Qa = Q + halt
    delta, seen = [], set()
    for _ in range(rng.randint(0, 8)):
        p, a = rng.choice(Q), rng.choice(gamma)
        if (p, a) in seen:
            continue
        seen.add((p, a))
        delta.append([p, a, rng.choice(Qa), rng.choice(gamma), rng.choice('LR')])
    return {'Q': Qa, 'Sigma': sigma, 'Gamma': gamma, 'delta': delta, 'q0': Q[0], 'qa': halt[0], 'qr': halt[1], 'blank': blank}


def gen(rng, tier):
    quick = tier == 'quick'
    cases = []
    for kind in ('dfa', 'nfa', 'pda', 'tm'):
        for _ in range(110 if quick else 2000):
            x = random_obj(rng, kind)
            kwlike = any(q in ('states', 'final', 'initial', 'input_symbols', 'epsilon', 'stack_symbols', 'tape_symbols', 'blank', 'accept', 'reject') for q in x['Q'])
            for _ in range(2):
                cases.append({'kind': kind, 'text': render(rng, kind, x), 'expect': None if kwlike else x})
            for _ in range(3):
                cases.append({'kind': kind, 'text': corrupt(rng, render(rng, kind, x)), 'expect': None})
    # the other state-label patterns (the rarely passed state_regex argument): pair labels, set labels, words or sets
    for _ in range(40 if quick else 800):
        mode = rng.choice(['product', 'set', 'wordset'])
        x = random_obj(rng, 'dfa')
        pool = {'product': ['(a,b)', '(q0,q1)', '(q1,q0)', '(x,x)', '(q10,q1)'], 'set': ['{}', '{q0}', '{q0,q1}', '{q1,q0}', '{a,b,c}', '{,}'],
                'wordset': ['q0', '{q0}', '{q0,q1}', 'q1', '{}', 'A']}[mode]
        rng.shuffle(pool)
        m = dict(zip(x['Q'], pool))
        y = {'Q': [m[q] for q in x['Q']], 'Sigma': x['Sigma'], 'delta': [[m[p_], a, m[q_]] for p_, a, q_ in x['delta']], 'q0': m[x['q0']], 'F': [m[q] for q in x['F']]}
        text = render(rng, 'dfa', y)
        cases.append({'kind': 'dfa', 'text': text, 'expect': y, 'regex': mode})
        for _ in range(3):
            t2 = corrupt(rng, text)
            if rng.random() < 0.6:            # damage one state label: trailing / leading junk, a missing bracket
                q = rng.choice(y['Q'])
                bad = rng.choice([q + ';', q + '-', q[:-1], q + '}', q + ')', '-' + q, q + ',', q + q])
                t2 = text.replace(q, bad, rng.choice([1, 1, 99]))
            cases.append({'kind': 'dfa', 'text': t2, 'expect': None, 'regex': mode})
    return cases


MODES = {None: 0, 'word': 0, 'product': 1, 'set': 2, 'wordset': 3}


def parse_obs(kind, text, product=False, regex=None):
    from implutil import safe, ok
    if kind == 'dfa':
        from gambatools.dfa_algorithms import parse_dfa
        from gambatools.automaton_algorithms import state_product_regex, state_set_regex, state_word_or_set_regex
        if regex:
            rx = {'product': state_product_regex, 'set': state_set_regex, 'wordset': state_word_or_set_regex}[regex]()
            r = safe(parse_dfa, text, state_regex=rx)
            return conv.dfa_case(r[1]) if ok(r) else None, None if ok(r) else r[1]
        r = safe(parse_dfa, text, state_regex=state_product_regex()) if product else safe(parse_dfa, text)
        return conv.dfa_case(r[1]) if ok(r) else None, None if ok(r) else r[1]
    if kind == 'nfa':
        from gambatools.nfa_algorithms import parse_nfa
        r = safe(parse_nfa, text)
        return conv.nfa_case(r[1]) if ok(r) else None, None if ok(r) else r[1]
    if kind == 'pda':
        from gambatools.pda_algorithms import parse_pda
        r = safe(parse_pda, text)
        return conv.pda_case(r[1]) if ok(r) else None, None if ok(r) else r[1]
    from gambatools.tm_algorithms import parse_tm
    r = safe(parse_tm, text)
    return TM.tm_case(r[1]) if ok(r) else None, None if ok(r) else r[1]


def observe(c):
    res, err = parse_obs(c['kind'], c['text'], c.get('product', False), c.get('regex'))
    return {'res': res, 'err': err}


REC = {'dfa': TM.dfa_rec, 'nfa': TM.nfa_rec, 'pda': TM.pda_rec, 'tm': TM.tm_rec}


def encode(c, o):
    ch = TM.Chars()
    k = c['kind']
    text = ch.text(c['text'])
    res = L.option(o['res'], lambda x: REC[k](ch, x))
    exp = L.option(c['expect'], lambda x: REC[k](ch, x))
    if k == 'dfa' and c.get('regex'):
        return 'judge_dfa_mode %s %s %s %d' % (text, res, exp, MODES[c['regex']])
    if k == 'dfa':
        return 'judge_dfa %s %s %s %s' % (text, res, exp, L.boolean(c.get('product', False)))
    return 'judge_%s %s %s %s' % (k, text, res, exp)


def explain(c):
    ch = TM.Chars()
    return 'parse_%s %s' % (c['kind'], ch.text(c['text']))


def key(c):
    return c['kind'] + '|' + c['text']


def nontrivial(c, o):
    return sum(1 for l in c['text'].split('\n') if len(l.split()) >= 3 and not l.strip().startswith('%')) >= 2


def describe(c):
    return {'kind': c['kind'], 'text': c['text'], 'faithful_layout_of': c['expect']}


def reproduce(c):
    return 'from gambatools.%s_algorithms import *; parse_%s(%r)' % (c['kind'], c['kind'], c['text'])


def signature(c, o, code):
    return 'C17:code%d:%s' % (code, key(c))


def distribution(cases, obs):
    d = {'accepted': 0, 'rejected': 0, 'error_classes': {}, 'faithful_layouts': 0, 'corruptions': 0}
    for c, o in zip(cases, obs):
        d['faithful_layouts' if c['expect'] else 'corruptions'] += 1
        if o['res'] is None:
            d['rejected'] += 1
            d['error_classes'][o['err']] = d['error_classes'].get(o['err'], 0) + 1
        else:
            d['accepted'] += 1
    return d


def shrink(c):
    lines = c['text'].split('\n')
    out = []
    if c['expect'] is None:
        for i in range(len(lines)):
            out.append(dict(c, text='\n'.join(lines[:i] + lines[i + 1:])))
    return out


LEVEL_TEXT = ('Coq theorems about the token-level model of AutomatonParser and the four builders (see evidence for statements still _partial): a rendering of a valid automaton in any layout parses to exactly that automaton, '
              'each listed fault class is rejected, and every returned object satisfies its class invariant. Tied to the Python by evaluating the model parser inside Coq on the same texts (random layouts and single-fault corruptions) '
              'and comparing objects field by field and accept/reject verdicts.')
LEVEL_NOTE = 'Trusted: Coq kernel + vm_compute, models Model/Tokens.v, Model/Parser.v (TMBuilder as repaired by fix F16), harness tokenisation (str.split) and character classification (re). No axioms.'
TECHNIQUE = 'Coq proof over a token-level parser model + in-Coq differential correspondence on layouts and single-fault corruptions'
