"""Case generators shared by the property modules.  Every random choice comes from the rng passed in."""
import itertools


def all_words(nsyms, n):
    out = []
    for k in range(n + 1):
        out.extend([list(w) for w in itertools.product(range(nsyms), repeat=k)])
    return out


def re_trees(nodes, nsyms):
    """all regexp trees with exactly `nodes` nodes over leaves 0, 1, symbols 0..nsyms-1"""
    memo = {}

    def go(n):
        if n in memo:
            return memo[n]
        if n == 1:
            r = [['0'], ['1']] + [['s', a] for a in range(nsyms)]
        else:
            r = [['*', t] for t in go(n - 1)]
            for k in range(1, n - 1):
                for l in go(k):
                    for rr in go(n - 1 - k):
                        r.append(['+', l, rr])
                        r.append(['.', l, rr])
        memo[n] = r
        return r
    return go(nodes)


def random_re(rng, depth, nsyms):
    if depth == 0 or rng.random() < 0.15:
        x = rng.random()
        if x < 0.12:
            return ['0']
        if x < 0.27:
            return ['1']
        return ['s', rng.randrange(nsyms)]
    x = rng.random()
    if x < 0.3:
        return ['*', random_re(rng, depth - 1, nsyms)]
    op = '+' if x < 0.62 else '.'
    return [op, random_re(rng, depth - 1, nsyms), random_re(rng, depth - 1, nsyms)]


def re_nodes(t):
    return 1 + sum(re_nodes(x) for x in t[1:] if isinstance(x, list))


def re_has_nested_star(t, under=False):
    if t[0] == '*':
        return under or re_has_nested_star(t[1], True)
    return any(re_has_nested_star(x, under) for x in t[1:] if isinstance(x, list))
