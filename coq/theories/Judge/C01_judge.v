From GT Require Import Base.Prelude Model.DFA Model.NFA Judge.Common.

Definition judge_C01_dfa (D : dfa nat) (ws : list word) (oaccs : list (option bool)) : nat :=
  worst_code [ check (dfa_wf_b D) 9;
               check (eqb oaccs (map (dfa_accepts D) ws)) 2 ].

Definition opt_seteqb (o : option (list nat)) (m : list nat) : bool :=
  match o with Some s => seteqb s m | None => false end.

(* N; words + verdicts; closure queries (argument set, implementation's result);
   the Eq table and the Eqa table of _nfa_cache as association lists *)
Definition judge_C01_nfa (N : nfa nat) (ws : list word) (oaccs : list (option bool))
           (closures : list (list nat * option (list nat)))
           (oEq : option (list (nat * list nat))) (oEqa : option (list ((nat * nat) * list nat))) : nat :=
  worst_code [
    check (nfa_wf_b N) 9;
    check (eqb oaccs (map (nfa_accepts N) ws)) 3;
    check (forallb (fun c => opt_seteqb (snd c) (eclose N (fst c))) closures) 4;
    match oEq with
    | None => 1
    | Some tEq => check (forallb (fun q => match lookup q tEq, Eq_get (nfa_Eq N) q with
                                            | Some s, Some m => seteqb s m | _, _ => false end) (nQ N)
                         && Nat.eqb (length tEq) (length (dedup (nQ N)))) 1   (* the private cache _nfa_cache: informational *)
    end;
    match oEqa, nfa_Eqa N with
    | Some tEqa, Some mEqa =>
      check (forallb (fun q => forallb (fun a =>
               seteqb (match lookup (q, a) tEqa with Some s => s | None => [] end) (Eqa_get mEqa q a))
               (neps N :: nS N)) (nQ N)) 1
    | _, _ => 1
    end ].

Definition explain_C01_dfa (D : dfa nat) (ws : list word) := map (dfa_accepts D) ws.
Definition explain_C01_nfa (N : nfa nat) (ws : list word) (sets : list (list nat)) :=
  (map (nfa_accepts N) ws, map (eclose N) sets, nfa_Eq N, nfa_Eqa N).
