(* Generic worklist closure (definitions only; proofs in Proofs/WorklistProofs.v).
   closure succ fuel init = the set of elements reachable from init through succ, as a duplicate-free list,
   or None when the fuel runs out. *)
From GT Require Import Base.Prelude.

Section Closure.
  Context {A : Type} `{Eqb A}.
  Variable succ : A -> list A.

  (* add the elements of ys that are not yet in result to both result and todo *)
  Fixpoint add_new (ys result todo : list A) : list A * list A :=
    match ys with
    | [] => (result, todo)
    | y :: ys' => if mem y result then add_new ys' result todo
                  else add_new ys' (result ++ [y]) (todo ++ [y])
    end.

  Fixpoint closure_loop (fuel : nat) (result todo : list A) : option (list A) :=
    match fuel with
    | 0 => None
    | S f => match todo with
             | [] => Some result
             | x :: rest => let '(r', t') := add_new (succ x) result rest in closure_loop f r' t'
             end
    end.

  Definition closure (fuel : nat) (init : list A) : option (list A) :=
    let i := dedup init in closure_loop fuel i i.

  Inductive reach (S0 : list A) : A -> Prop :=
  | reach0 x : In x S0 -> reach S0 x
  | reachS x y : reach S0 x -> In y (succ x) -> reach S0 y.
End Closure.
