(* Property C15, second part: the models of cfg_derive_word and pda_simulate_word (Model/Simulate2.v) return
   witnesses accepted by the verified checkers derivation_ok / pda_run_ok of Model/Simulate.v.

   cfg_derive_word: for a CNF grammar and a non-empty accepted word a leftmost (mode 0) / rightmost (mode 1)
     derivation accepted by derivation_ok is returned -- UNDER THE EXTRA HYPOTHESIS that no letter of the word is the
     name of a variable: Python's first_index / last_index compare names only, and `cfg_derive_clash` below is a
     grammar (a terminal named like a variable) for which the returned list is not a derivation.
   pda_simulate_word: every returned run is accepted by pda_run_ok (for every admissible pick, every limit, also
     when closures were truncated); when no closure of the forward pass is truncated, a run is returned for accepted
     words (the searches terminate within the fuel of the model for EVERY admissible pick) and None for rejected
     words. *)
From GT Require Import Base.Prelude Model.NFA Model.PDA Model.CFG Model.CYK Model.Simulate Model.Simulate2
  Proofs.WorklistProofs Proofs.NFAProofs Proofs.PDAProofs Proofs.CFGBasics Proofs.CYKProofs Proofs.SimulateProofs.

(* ================================================================= generic list facts *)
Lemma chain_ok_snoc {X} (step : X -> X -> bool) : forall (l : list X) x y,
  chain_ok step ((l ++ [x]) ++ [y]) = chain_ok step (l ++ [x]) && step x y.
Proof.
  induction l as [|z l IH]; intros x y.
  - cbn [app chain_ok]. rewrite andb_true_r. reflexivity.
  - cbn [app]. destruct (l ++ [x]) as [|u r] eqn:E; [destruct l; discriminate|].
    cbn [app]. rewrite !chain_ok_cons. change (u :: r ++ [y]) with ((u :: r) ++ [y]). rewrite <- E, IH.
    rewrite andb_assoc. reflexivity.
Qed.

Lemma hd_error_snoc {X} (l : list X) x y : hd_error ((l ++ [x]) ++ [y]) = hd_error (l ++ [x]).
Proof. destruct l; reflexivity. Qed.

Lemma list_rcase {X} (l : list X) : l = [] \/ exists l' x, l = l' ++ [x].
Proof.
  destruct l as [|a l]; [left; reflexivity|]. right.
  destruct (@exists_last _ (a :: l)) as (l' & x & E); [discriminate|]. exists l', x. exact E.
Qed.

Lemma replace_at {X} (v : list X) : forall (pre : list X) s post,
  firstn (length pre) (pre ++ s :: post) ++ v ++ skipn (S (length pre)) (pre ++ s :: post) = pre ++ v ++ post.
Proof.
  induction pre as [|x pre IH]; intros s post; [reflexivity|].
  cbn [length app firstn skipn]. f_equal. apply IH.
Qed.

Lemma pick_last_snoc {X} (l : list X) x : pick_last (l ++ [x]) = Some (x, l).
Proof. unfold pick_last. rewrite rev_unit, rev_involutive. reflexivity. Qed.

(* ================================================================= 1. cfg_derive_word *)
Lemma first_index_app A s post : forall pre, Forall (fun x => sname x <> sname A) pre -> sname s = sname A ->
  first_index A (pre ++ s :: post) = Some (length pre).
Proof.
  induction pre as [|x pre IH]; intros Hpre Hs.
  - cbn [app first_index length]. apply Nat.eqb_eq in Hs. rewrite Hs. reflexivity.
  - inversion Hpre as [|x' pre' Hx Hpre']; subst. cbn [app first_index length].
    apply Nat.eqb_neq in Hx. rewrite Hx, (IH Hpre' Hs). reflexivity.
Qed.

Lemma last_index_app A s pre post : Forall (fun x => sname x <> sname A) post -> sname s = sname A ->
  last_index A (pre ++ s :: post) = Some (length pre).
Proof.
  intros Hpost Hs. unfold last_index. rewrite rev_app_distr. cbn [rev]. rewrite <- app_assoc. cbn [app].
  rewrite first_index_app; [| |exact Hs].
  - rewrite app_length, rev_length. cbn [length]. f_equal. lia.
  - apply Forall_forall. intros x Hx. apply in_rev in Hx. rewrite Forall_forall in Hpost. apply Hpost; exact Hx.
Qed.

(* well-formed parse trees over the letters of w, and their frontier *)
Inductive wf_tree (G : cfg) (w : word) : ptree -> Prop :=
| wft_leaf a p q : In a w -> wf_tree G w (PNode (Tm a) p q [])
| wft_node A p q c cs : has_rule G A (map plabel (c :: cs)) -> In A (gV G) -> Forall (wf_tree G w) (c :: cs) ->
                        wf_tree G w (PNode (Var A) p q (c :: cs)).

Fixpoint pyield (t : ptree) : list sym :=
  match t with PNode A _ _ ch => match ch with [] => [A] | _ :: _ => flat_map pyield ch end end.

Definition size_sum (l : list ptree) : nat := list_sum (map psize l).

Lemma size_sum_app l1 l2 : size_sum (l1 ++ l2) = size_sum l1 + size_sum l2.
Proof. unfold size_sum. rewrite map_app, list_sum_app. reflexivity. Qed.

Lemma size_sum_cons t l : size_sum (t :: l) = psize t + size_sum l.
Proof. reflexivity. Qed.

Lemma size_sum_snoc l t : size_sum (l ++ [t]) = size_sum l + psize t.
Proof. rewrite size_sum_app. unfold size_sum. cbn [map list_sum fold_right]. lia. Qed.

Lemma size_sum_nil : size_sum [] = 0.
Proof. reflexivity. Qed.

Lemma psize_node A p q ch : psize (PNode A p q ch) = S (size_sum ch).
Proof. reflexivity. Qed.

Section Extract.
  Variable G : cfg.
  Variable w : word.
  Hypothesis Hclash : forall a, In a w -> ~ In a (gV G).

  (* terminals that cannot be confused with a variable *)
  Definition tmsafe (s : sym) : Prop := is_var s = false /\ ~ In (sname s) (gV G).

  Lemma tmsafe_forallb l : Forall tmsafe l -> forallb (fun s => negb (is_var s)) l = true.
  Proof.
    intros Hl. apply forallb_forall. intros s Hs. rewrite Forall_forall in Hl. destruct (Hl s Hs) as [E _].
    rewrite E. reflexivity.
  Qed.

  Lemma tmsafe_names l A : Forall tmsafe l -> In A (gV G) -> Forall (fun x => sname x <> sname (Var A)) l.
  Proof.
    intros Hl HA. apply Forall_forall. intros s Hs. rewrite Forall_forall in Hl. destruct (Hl s Hs) as [_ Hn].
    intros Hc. apply Hn. rewrite Hc. exact HA.
  Qed.

  (* ---- leftmost: todo is a stack with its top at the front; element = (terminals produced) ++ labels of todo ---- *)
  Lemma extract_left_ok : forall fuel todo pre rs,
    Forall (wf_tree G w) todo -> Forall tmsafe pre -> size_sum todo < fuel ->
    chain_ok (deriv_step_ok G 0) (rs ++ [pre ++ map plabel todo]) = true ->
    exists rs' , extract_loop true fuel todo (pre ++ map plabel todo) (rs ++ [pre ++ map plabel todo])
                 = Some (rs' ++ [pre ++ flat_map pyield todo]) /\
      chain_ok (deriv_step_ok G 0) (rs' ++ [pre ++ flat_map pyield todo]) = true /\
      hd_error (rs' ++ [pre ++ flat_map pyield todo]) = hd_error (rs ++ [pre ++ map plabel todo]).
  Proof.
    induction fuel as [|fu IH]; intros todo pre rs Hwf Hpre Hsize Hchain; [lia|].
    destruct todo as [|t rest].
    - cbn [extract_loop pick_head map flat_map]. exists rs. split; [reflexivity|]. split; [exact Hchain | reflexivity].
    - inversion Hwf as [|t' rest' Ht Hrest]; subst t' rest'.
      rewrite size_sum_cons in Hsize.
      destruct Ht as [a p q Ha | A p q c cs Hrule HA Hch].
      + (* a leaf: nothing happens *)
        cbn [extract_loop pick_head].
        cbn [map plabel flat_map pyield] in *.
        replace (pre ++ Tm a :: map plabel rest) with ((pre ++ [Tm a]) ++ map plabel rest) in *
          by (rewrite <- app_assoc; reflexivity).
        replace (pre ++ [Tm a] ++ flat_map pyield rest) with ((pre ++ [Tm a]) ++ flat_map pyield rest)
          by (rewrite <- app_assoc; reflexivity).
        apply IH; [exact Hrest | | rewrite psize_node in Hsize; lia | exact Hchain].
        apply Forall_app. split; [exact Hpre|]. constructor; [|constructor].
        split; [reflexivity|]. cbn [sname snd Tm]. apply Hclash; exact Ha.
      + (* an inner node: the leftmost variable is rewritten *)
        cbn [extract_loop pick_head]. cbn [map plabel] in Hchain |- *.
        rewrite (first_index_app (Var A) (Var A) (map plabel rest) pre) by
          (try reflexivity; apply tmsafe_names; assumption).
        cbv zeta. rewrite replace_at.
        change (plabel c :: map plabel cs) with (map plabel (c :: cs)) in *.
        set (ch := c :: cs) in *.
        set (e' := pre ++ map plabel ch ++ map plabel rest).
        assert (Ee : e' = pre ++ map plabel (ch ++ rest)) by (unfold e'; rewrite map_app; reflexivity).
        assert (Hstep : deriv_step_ok G 0 (pre ++ Var A :: map plabel rest) e' = true).
        { apply deriv_step_ok_leftmost. exists pre, A, (map plabel rest), (map plabel ch).
          split; [reflexivity|]. split; [reflexivity|]. split; [exact Hrule | apply tmsafe_forallb; exact Hpre]. }
        destruct (IH (ch ++ rest) pre (rs ++ [pre ++ Var A :: map plabel rest])) as (rs' & E & Hc' & Hhd').
        * apply Forall_app. split; [exact Hch | exact Hrest].
        * exact Hpre.
        * rewrite size_sum_app. rewrite psize_node in Hsize. lia.
        * rewrite <- Ee, chain_ok_snoc, Hchain, Hstep. reflexivity.
        * rewrite <- Ee in E, Hhd'. rewrite E.
          assert (Ey : pre ++ flat_map pyield (ch ++ rest) = pre ++ flat_map pyield (PNode (Var A) p q ch :: rest)).
          { rewrite flat_map_app. reflexivity. }
          rewrite Ey in *. exists rs'. split; [reflexivity|]. split; [exact Hc'|].
          rewrite Hhd'. apply hd_error_snoc.
  Qed.

  (* ---- rightmost: the top of todo is its end; element = labels of todo ++ (terminals produced) ---- *)
  Lemma extract_right_ok : forall fuel todo post rs,
    Forall (wf_tree G w) todo -> Forall tmsafe post -> size_sum todo < fuel ->
    chain_ok (deriv_step_ok G 1) (rs ++ [map plabel todo ++ post]) = true ->
    exists rs' , extract_loop false fuel todo (map plabel todo ++ post) (rs ++ [map plabel todo ++ post])
                 = Some (rs' ++ [flat_map pyield todo ++ post]) /\
      chain_ok (deriv_step_ok G 1) (rs' ++ [flat_map pyield todo ++ post]) = true /\
      hd_error (rs' ++ [flat_map pyield todo ++ post]) = hd_error (rs ++ [map plabel todo ++ post]).
  Proof.
    induction fuel as [|fu IH]; intros todo post rs Hwf Hpost Hsize Hchain; [lia|].
    destruct (list_rcase todo) as [->|(rest & t & ->)].
    - cbn [extract_loop pick_last rev map flat_map]. exists rs. split; [reflexivity|]. split; [exact Hchain | reflexivity].
    - apply Forall_app in Hwf. destruct Hwf as [Hrest Ht]. inversion Ht as [|t' l' Ht' _]; subst t' l'.
      rewrite size_sum_snoc in Hsize.
      cbn [extract_loop]. rewrite pick_last_snoc.
      rewrite map_app, flat_map_app in *. cbn [map flat_map] in *. rewrite app_nil_r in *.
      destruct Ht' as [a p q Ha | A p q c cs Hrule HA Hch].
      + cbn [plabel pyield] in *. rewrite <- !app_assoc in *. cbn [app] in *.
        apply IH; [exact Hrest | | rewrite psize_node in Hsize; lia | exact Hchain].
        constructor; [|exact Hpost]. split; [reflexivity|]. cbn [sname snd Tm]. apply Hclash; exact Ha.
      + cbn [plabel] in *. rewrite <- !app_assoc in *. cbn [app] in *.
        rewrite (last_index_app (Var A) (Var A) (map plabel rest) post) by
          (try reflexivity; apply tmsafe_names; assumption).
        cbv zeta. rewrite replace_at.
        change (plabel c :: map plabel cs) with (map plabel (c :: cs)) in *.
        set (ch := c :: cs) in *.
        set (e' := map plabel rest ++ map plabel ch ++ post).
        assert (Ee : e' = map plabel (rest ++ ch) ++ post) by (unfold e'; rewrite map_app, <- app_assoc; reflexivity).
        assert (Hstep : deriv_step_ok G 1 (map plabel rest ++ Var A :: post) e' = true).
        { apply deriv_step_ok_rightmost; [discriminate|]. exists (map plabel rest), A, post, (map plabel ch).
          split; [reflexivity|]. split; [reflexivity|]. split; [exact Hrule | apply tmsafe_forallb; exact Hpost]. }
        destruct (IH (rest ++ ch) post (rs ++ [map plabel rest ++ Var A :: post])) as (rs' & E & Hc' & Hhd').
        * apply Forall_app. split; [exact Hrest | exact Hch].
        * exact Hpost.
        * rewrite size_sum_app. rewrite psize_node in Hsize. lia.
        * rewrite <- Ee, chain_ok_snoc, Hchain, Hstep. reflexivity.
        * rewrite <- Ee in E, Hhd'. rewrite E.
          assert (Ey : flat_map pyield (rest ++ ch) ++ post = flat_map pyield rest ++ pyield (PNode (Var A) p q ch) ++ post).
          { rewrite flat_map_app, <- app_assoc. reflexivity. }
          rewrite Ey in *. exists rs'. split; [reflexivity|]. split; [exact Hc'|].
          rewrite Hhd'. apply hd_error_snoc.
  Qed.

  Lemma extract_derivation_ok (t : ptree) (mode : nat) : wf_tree G w t -> mode <= 1 ->
    exists rs', extract_derivation t (Nat.eqb mode 0) = Some (rs' ++ [pyield t]) /\
      chain_ok (deriv_step_ok G mode) (rs' ++ [pyield t]) = true /\ hd_error (rs' ++ [pyield t]) = Some [plabel t].
  Proof.
    intros Ht Hm. unfold extract_derivation.
    assert (Hcase : mode = 0 \/ mode = 1) by lia. destruct Hcase as [-> | ->]; cbn [Nat.eqb].
    - destruct (extract_left_ok (S (psize t)) [t] [] [] (Forall_cons _ Ht (Forall_nil _)) (Forall_nil _)) as (rs' & E & Hc & Hhd).
      + rewrite size_sum_cons, size_sum_nil. lia.
      + reflexivity.
      + cbn [app map flat_map] in *. rewrite app_nil_r in *. exists rs'. split; [exact E|]. split; [exact Hc | exact Hhd].
    - destruct (extract_right_ok (S (psize t)) [t] [] [] (Forall_cons _ Ht (Forall_nil _)) (Forall_nil _)) as (rs' & E & Hc & Hhd).
      + rewrite size_sum_cons, size_sum_nil. lia.
      + reflexivity.
      + cbn [app map flat_map] in *. rewrite !app_nil_r in *. exists rs'. split; [exact E|]. split; [exact Hc | exact Hhd].
  Qed.
End Extract.

(* ---------------- the parse tree built from the CYK table ---------------- *)
Lemma find_rule_sound alts Xpm Xmq B C : find_rule alts Xpm Xmq = Some (B, C) ->
  In [B; C] alts /\ In (sname B) Xpm /\ In (sname C) Xmq.
Proof.
  induction alts as [|alt rest IH]; intros E; [discriminate|]. cbn [find_rule] in E.
  destruct alt as [|x [|y [|z alt']]]; try (destruct (IH E) as (H1 & H2 & H3); split; [right; exact H1 | split; assumption]).
  destruct (mem (sname x) Xpm && mem (sname y) Xmq) eqn:Em.
  - inversion E; subst x y. apply andb_true_iff in Em. destruct Em as [E1 E2]. apply mem_In in E1. apply mem_In in E2.
    split; [left; reflexivity | split; assumption].
  - destruct (IH E) as (H1 & H2 & H3). split; [right; exact H1 | split; assumption].
Qed.

Lemma find_rule_complete alts Xpm Xmq B C : In [B; C] alts -> In (sname B) Xpm -> In (sname C) Xmq ->
  find_rule alts Xpm Xmq <> None.
Proof.
  intros Hin HB HC. induction alts as [|alt rest IH]; [destruct Hin|]. cbn [find_rule].
  destruct Hin as [->|Hin].
  - apply mem_In in HB. apply mem_In in HC. rewrite HB, HC. discriminate.
  - destruct alt as [|x [|y [|z alt']]]; try (apply IH; exact Hin).
    destruct (mem (sname x) Xpm && mem (sname y) Xmq); [discriminate | apply IH; exact Hin].
Qed.

Lemma find_split_sound alts X p q : forall ms m B C, find_split alts X p q ms = Some (m, B, C) ->
  In m ms /\ In [B; C] alts /\ In (sname B) (cget X p (m - 1)) /\ In (sname C) (cget X m (q - 1)).
Proof.
  induction ms as [|m0 ms IH]; intros m B C E; [discriminate|]. cbn [find_split] in E.
  destruct (find_rule alts (cget X p (m0 - 1)) (cget X m0 (q - 1))) as [[B0 C0]|] eqn:Ef.
  - inversion E; subst m0 B0 C0. apply find_rule_sound in Ef. split; [left; reflexivity | exact Ef].
  - destruct (IH m B C E) as (H1 & H2). split; [right; exact H1 | exact H2].
Qed.

Lemma find_split_complete alts X p q B C : forall ms m, In m ms -> In [B; C] alts ->
  In (sname B) (cget X p (m - 1)) -> In (sname C) (cget X m (q - 1)) -> find_split alts X p q ms <> None.
Proof.
  induction ms as [|m0 ms IH]; intros m Hm Hin HB HC; [destruct Hm|]. cbn [find_split].
  destruct (find_rule alts (cget X p (m0 - 1)) (cget X m0 (q - 1))) as [[B0 C0]|] eqn:Ef; [discriminate|].
  destruct Hm as [->|Hm]; [|apply (IH m); assumption].
  exfalso. exact (find_rule_complete alts _ _ B C Hin HB HC Ef).
Qed.

Lemma rules_of_In G A alt : In alt (rules_of G A) <-> has_rule G A alt.
Proof.
  unfold rules_of, has_rule. rewrite in_map_iff. split.
  - intros (r & Er & Hr). apply filter_In in Hr. destruct Hr as [Hr Ev]. apply Nat.eqb_eq in Ev. exists r. auto.
  - intros (r & Hr & Ev & Er). exists r. split; [exact Er|]. apply filter_In. split; [exact Hr | apply Nat.eqb_eq; exact Ev].
Qed.

Section BuildTree.
  Variable G : cfg.
  Hypothesis Hc : is_chomsky G.
  Hypothesis Hwf : cfg_wf G.
  Variable w : word.

  (* a cell of a span of length >= 2 is justified by a split point *)
  Lemma cell_split A p q : p + 2 <= q -> q <= length w -> In A (cget (cyk G w) p (q - 1)) ->
    exists k B C, p <= k /\ k < q - 1 /\ In B (cget (cyk G w) p k) /\ In C (cget (cyk G w) (S k) (q - 1)) /\
                  has_rule G A [Var B; Var C].
  Proof.
    intros Hpq Hq HA. apply (cyk_cell_exact G w p (q - 1) A Hc Hwf) in HA; [|lia|lia].
    destruct HA as [HV Hy]. apply (cnf_yields_inv G Hc) in Hy.
    assert (Hlen : length (subword w p (q - 1)) = q - p) by (rewrite subword_length; lia).
    destruct Hy as [[E _]|[(a & E & _)|(B & C & u1 & u2 & E & Hr & HB & HC & N1 & N2 & _)]].
    - rewrite E in Hlen. cbn [length] in Hlen. lia.
    - rewrite E in Hlen. cbn [length] in Hlen. lia.
    - assert (L1 : length u1 <> 0) by (destruct u1; [congruence | cbn [length]; lia]).
      assert (L2 : length u2 <> 0) by (destruct u2; [congruence | cbn [length]; lia]).
      assert (L12 : length u1 + length u2 = q - p) by (rewrite <- Hlen, E, app_length; reflexivity).
      remember (p + length u1 - 1) as k eqn:Ek.
      rewrite (subword_split w p k (q - 1)) in E by lia.
      symmetry in E. apply app_inv_length in E; [|rewrite subword_length; lia].
      destruct E as [E1 E2]. rewrite E1 in HB. rewrite E2 in HC.
      destruct (rule_var_in G Hwf A B C Hr) as (_ & HBV & HCV).
      exists k, B, C. split; [lia|]. split; [lia|]. split; [|split; [|exact Hr]].
      + apply (cyk_cell_exact G w p k B Hc Hwf); [lia | lia | split; assumption].
      + apply (cyk_cell_exact G w (S k) (q - 1) C Hc Hwf); [lia | lia | split; assumption].
  Qed.

  Lemma build_tree_ok : forall fuel A p q, p < q -> q <= length w -> q - p <= fuel ->
    In A (cget (cyk G w) p (q - 1)) ->
    wf_tree G w (build_tree G w (cyk G w) fuel (Var A) p q) /\
    plabel (build_tree G w (cyk G w) fuel (Var A) p q) = Var A /\
    pyield (build_tree G w (cyk G w) fuel (Var A) p q) = tword (subword w p (q - 1)).
  Proof.
    induction fuel as [|fu IH]; intros A p q Hpq Hq Hfuel HA; [lia|].
    cbn [build_tree]. destruct (Nat.eqb (q - p) 1) eqn:E1.
    - apply Nat.eqb_eq in E1. assert (Eq : q - 1 = p) by lia. rewrite Eq in *.
      apply (cyk_cell_exact G w p p A Hc Hwf) in HA; [|lia|lia]. destruct HA as [HV Hy].
      rewrite subword_diag in Hy |- * by lia. apply (cnf_yields_single G Hc) in Hy.
      split; [|split; reflexivity].
      apply wft_node; [exact Hy | exact HV|]. constructor; [|constructor].
      apply wft_leaf. apply nth_In. lia.
    - apply Nat.eqb_neq in E1. cbn [sname snd Var].
      destruct (cell_split A p q) as (k & B & C & Hk1 & Hk2 & HB & HC & Hr); [lia | exact Hq | exact HA|].
      assert (HAV : In A (gV G)) by (apply (cyk_cell_exact G w p (q - 1) A Hc Hwf) in HA; [tauto | lia | lia]).
      destruct (find_split (rules_of G A) (cyk G w) p q (seq (S p) (q - S p))) as [[[m B'] C']|] eqn:Ef.
      + apply find_split_sound in Ef. destruct Ef as (Hm & Halt & HB' & HC').
        apply in_seq in Hm. apply rules_of_In in Halt.
        assert (Hvars : exists b c, B' = Var b /\ C' = Var c).
        { destruct Halt as (r & Hr' & _ & Er). destruct (Hc r Hr') as [[E _]|[[a E]|(b & c & E & _)]];
            rewrite E in Er; try discriminate. inversion Er; subst. exists b, c. split; reflexivity. }
        destruct Hvars as (b & c & -> & ->). cbn [sname snd Var] in HB', HC'.
        destruct (IH b p m) as (W1 & L1 & Y1); [lia | lia | lia | exact HB'|].
        destruct (IH c m q) as (W2 & L2 & Y2); [lia | lia | lia | exact HC'|].
        split; [|split].
        * apply wft_node; [|exact HAV|].
          -- cbn [map]. rewrite L1, L2. exact Halt.
          -- constructor; [exact W1|]. constructor; [exact W2 | constructor].
        * reflexivity.
        * cbn [pyield flat_map]. rewrite app_nil_r, Y1, Y2, <- tword_app. f_equal.
          rewrite (subword_split w p (m - 1) (q - 1)) by lia. replace (S (m - 1)) with m by lia. reflexivity.
      + exfalso. apply (find_split_complete (rules_of G A) (cyk G w) p q (Var B) (Var C) (seq (S p) (q - S p)) (S k)) in Ef;
          [exact Ef | apply in_seq; lia | apply rules_of_In; exact Hr | |].
        * cbn [sname snd Var]. replace (S k - 1) with k by lia. exact HB.
        * cbn [sname snd Var]. exact HC.
  Qed.
End BuildTree.

(* ---------------- cfg_derive_word ---------------- *)
Theorem cfg_derive_sound (G : cfg) (w : word) (mode : nat) : is_chomsky G -> cfg_wf G -> w <> [] ->
  (forall a, In a w -> ~ In a (gV G)) ->              (* no letter of the word is the name of a variable *)
  cnf_accepts G w = true -> mode <= 1 ->
  exists steps, cfg_derive G w mode = Some steps /\ derivation_ok G mode w steps = true.
Proof.
  intros Hc Hwf Hne Hclash Hacc Hmode. unfold cfg_derive.
  rewrite (proj2 (is_chomsky_b_spec G) Hc). replace (Nat.ltb 1 mode) with false by (symmetry; apply Nat.ltb_ge; exact Hmode).
  cbn [negb orb]. cbv zeta.
  assert (Hroot : In (gS G) (cget (cyk G w) 0 (length w - 1))).
  { destruct w as [|a w']; [congruence|]. cbn [cnf_accepts] in Hacc. apply mem_In. exact Hacc. }
  rewrite (proj2 (mem_In _ _) Hroot). cbn [negb].
  assert (Hlen : 0 < length w) by (destruct w; [congruence | cbn [length]; lia]).
  destruct (build_tree_ok G Hc Hwf w (length w) (gS G) 0 (length w)) as (Wt & Lt & Yt); [lia | lia | lia | exact Hroot|].
  rewrite subword_full in Yt.
  destruct (extract_derivation_ok G w Hclash _ mode Wt Hmode) as (rs' & E & Hchain & Hhd).
  rewrite Yt, Lt in *. exists (rs' ++ [tword w]). split; [exact E|].
  unfold derivation_ok. destruct (rs' ++ [tword w]) as [|x0 l] eqn:El; [destruct rs'; discriminate|].
  cbn [hd_error] in Hhd. inversion Hhd; subst x0. rewrite eqb_refl, Hchain. cbn [andb].
  rewrite <- El, last_last. apply eqb_refl.
Qed.

Theorem cfg_derive_none (G : cfg) (w : word) (mode : nat) : cnf_accepts G w = false -> cfg_derive G w mode = None.
Proof.
  intros Hacc. unfold cfg_derive. destruct (negb (is_chomsky_b G) || Nat.ltb 1 mode); [reflexivity|]. cbv zeta.
  destruct w as [|a w']; [reflexivity|]. cbn [cnf_accepts] in Hacc. rewrite Hacc. reflexivity.
Qed.

(* the routine also raises outside its precondition *)
Lemma cfg_derive_not_chomsky (G : cfg) (w : word) (mode : nat) : is_chomsky_b G = false -> cfg_derive G w mode = None.
Proof. intros E. unfold cfg_derive. rewrite E. reflexivity. Qed.

(* Why the hypothesis on the letters: V = {S=0, A=1, B=2}, terminals {2, 11} (one of them is named like B),
   S -> A B, A -> '2', B -> '11'; the word "2 11" is accepted, the leftmost "derivation" returned rewrites the terminal. *)
Definition clash_G : cfg := mkCFG [0; 1; 2] [2; 11] [mkRule 0 0 [Var 1; Var 2]; mkRule 1 1 [Tm 2]; mkRule 2 2 [Tm 11]] 0.
Lemma cfg_derive_clash :
  is_chomsky_b clash_G = true /\ cfg_wf_b clash_G = true /\ cnf_accepts clash_G [2; 11] = true /\
  cfg_derive clash_G [2; 11] 0 = Some [[Var 0]; [Var 1; Var 2]; [Tm 2; Var 2]; [Tm 11; Var 2]] /\
  derivation_ok clash_G 0 [2; 11] [[Var 0]; [Var 1; Var 2]; [Tm 2; Var 2]; [Tm 11; Var 2]] = false.
Proof. vm_compute. repeat split; reflexivity. Qed.

(* ================================================================= 2. breadth-first search with back-pointers *)
(* the argument of Proofs/SimulateProofs.v (back-pointer forest), for an arbitrary successor function; the graph may be
   infinite: termination is proved relative to a finite successor-closed set V containing the start set *)
Set Implicit Arguments.
Section BFSP.
  Context {A : Type} `{Eqb A}.
  Variable succ : A -> list A.

  Inductive gpath : A -> list A -> A -> Prop :=
  | gp_one q : gpath q [q] q
  | gp_cons q q1 l f : In q1 (succ q) -> gpath q1 l f -> gpath q (q :: l) f.
  Inductive gstar : A -> A -> Prop :=
  | gs_refl q : gstar q q
  | gs_step q q1 q2 : In q1 (succ q) -> gstar q1 q2 -> gstar q q2.

  Lemma gpath_snoc p l s t : gpath p l s -> In t (succ s) -> gpath p (l ++ [t]) t.
  Proof.
    intros Hp. induction Hp as [q|q q1 l f Hin Hp IH]; intros Ht.
    - cbn [app]. apply gp_cons with t; [exact Ht | apply gp_one].
    - cbn [app]. apply gp_cons with q1; [exact Hin | apply IH; exact Ht].
  Qed.

  Lemma gpath_hd p l f : gpath p l f -> exists l', l = p :: l'.
  Proof. intros Hp. destruct Hp as [q|q q1 l f Hin Hp]; eexists; reflexivity. Qed.

  Lemma gpath_gstar p l f : gpath p l f -> gstar p f.
  Proof. intros Hp. induction Hp as [q|q q1 l f Hin Hp IH]; [apply gs_refl|]. eapply gs_step; eassumption. Qed.

  Lemma gpath_explicit p l f : gpath p l f ->
    hd_error l = Some p /\ (forall d, last l d = f) /\
    forall i d, S i < length l -> In (nth (S i) l d) (succ (nth i l d)).
  Proof.
    intros Hp. induction Hp as [q|q q1 l f Hin Hp IH].
    - split; [reflexivity|]. split; [intros d; reflexivity|]. intros i d Hi. cbn [length] in Hi. lia.
    - destruct IH as (Hhd & Hl & Hn). destruct (gpath_hd Hp) as [l' ->].
      split; [reflexivity|]. split.
      + intros d. rewrite last_cons_cons. apply Hl.
      + intros i d Hi. destruct i as [|i].
        * cbn [nth]. exact Hin.
        * change (In (nth (S i) (q1 :: l') d) (succ (nth i (q1 :: l') d))). apply Hn.
          cbn [length] in Hi |- *. lia.
  Qed.

  Inductive gbp_ok (R : list A) : list (A * A) -> Prop :=
  | gbpo_nil : gbp_ok R []
  | gbpo_snoc bp t s : gbp_ok R bp -> In s R \/ In s (map fst bp) -> ~ In t (map fst bp) ->
                       In t (succ s) -> gbp_ok R (bp ++ [(t, s)]).

  Lemma make_path_gok R bp : gbp_ok R bp -> forall ext q fuel acc, In q R \/ In q (map fst bp) ->
    length bp <= fuel ->
    exists p0 path, make_path R (bp ++ ext) fuel q acc = Some (path ++ acc) /\ In p0 R /\ gpath p0 path q.
  Proof.
    intros Hok. induction Hok as [|bp t s Hok IH Hs Ht Hts]; intros ext q fuel acc Hq Hf.
    - destruct Hq as [Hq|[]]. exists q, [q]. split; [apply make_path_in_R; exact Hq|]. split; [exact Hq | apply gp_one].
    - rewrite <- app_assoc. cbn [app].
      destruct (mem q R) eqn:Em.
      { apply mem_In in Em. exists q, [q]. split; [apply make_path_in_R; exact Em|]. split; [exact Em | apply gp_one]. }
      rewrite app_length in Hf. cbn [length] in Hf.
      destruct Hq as [Hq|Hq]; [apply mem_In in Hq; congruence|].
      rewrite map_app, in_app_iff in Hq. cbn [map fst In] in Hq. destruct Hq as [Hq|[Hq|[]]].
      + apply IH; [right; exact Hq | lia].
      + subst q. destruct fuel as [|fu]; [lia|]. cbn [make_path]. rewrite Em.
        rewrite lookup_app_notin by exact Ht. cbn [lookup]. rewrite eqb_refl.
        destruct (IH ((t, s) :: ext) s fu (t :: acc) Hs) as (p0 & path & Em' & Hp0 & Hp); [lia|].
        exists p0, (path ++ [t]). split; [rewrite <- app_assoc; exact Em'|]. split; [exact Hp0|].
        apply gpath_snoc with s; assumption.
  Qed.

  Lemma gbp_ok_extend R src : forall news bp, gbp_ok R bp -> In src R \/ In src (map fst bp) -> NoDup news ->
    (forall t, In t news -> In t (succ src) /\ ~ In t (map fst bp)) ->
    gbp_ok R (bp ++ map (fun t => (t, src)) news).
  Proof.
    induction news as [|t news IH]; intros bp Hok Hsrc Hnd Hn.
    - cbn [map]. rewrite app_nil_r. exact Hok.
    - cbn [map]. change ((t, src) :: map (fun t0 => (t0, src)) news) with ([(t, src)] ++ map (fun t0 => (t0, src)) news).
      rewrite app_assoc. inversion Hnd as [|t' news' Hnt Hnd']; subst.
      destruct (Hn t (or_introl eq_refl)) as [Ht1 Ht2].
      apply IH.
      + apply gbpo_snoc; assumption.
      + rewrite map_app, in_app_iff. destruct Hsrc as [Hs|Hs]; [left; exact Hs | right; left; exact Hs].
      + exact Hnd'.
      + intros t0 Ht0. destruct (Hn t0 (or_intror Ht0)) as [H1 H2]. split; [exact H1|].
        rewrite map_app, in_app_iff. cbn [map fst In]. intros [Hc|[Hc|[]]]; [contradiction|]. subst t0. contradiction.
  Qed.

  Variable pick : picker A.
  Hypothesis Hpick : picker_ok pick.

  Definition GInv (R visited todo : list A) (bp : list (A * A)) : Prop :=
    gbp_ok R bp /\ (forall v, In v visited <-> In v R \/ In v (map fst bp)) /\ incl todo visited.

  Lemma GInv_step R f visited todo bp src rest v' t' bp' found :
    GInv R visited todo bp -> pick todo = Some (src, rest) ->
    visit_targets f src (succ src) visited rest bp = (v', t', bp', found) ->
    gbp_ok R bp' /\ (forall v, In v v' <-> In v R \/ In v (map fst bp')) /\ (found = false -> incl t' v') /\
    (found = true -> In f (map fst bp')).
  Proof.
    intros (Hok & Hv & Ht) Hp Ev. destruct (picker_some pick todo src rest Hpick Hp) as [Hperm _].
    destruct (visit_targets_spec _ _ _ _ _ _ _ _ _ _ Ev) as (news & -> & -> & Hnd & Hn & Hf).
    assert (Hsrc : In src R \/ In src (map fst bp)) by (apply Hv, Ht, Hperm; left; reflexivity).
    split; [|split; [|split]].
    - apply gbp_ok_extend; try assumption. intros t Hin. destruct (Hn t Hin) as [H1 H2]. split; [exact H1|].
      intros Hc. apply H2. apply Hv. right; exact Hc.
    - intros v. rewrite map_app, keys_news, !in_app_iff, Hv. tauto.
    - intros ->. destruct Hf as (-> & _ & _). intros x Hx. apply in_app_or in Hx. apply in_or_app.
      destruct Hx as [Hx|Hx]; [left; apply Ht, Hperm; right; exact Hx | right; exact Hx].
    - intros ->. rewrite map_app, keys_news. apply in_or_app. right; exact Hf.
  Qed.

  Lemma bfs_loop_sound R f : forall fuel visited todo bp path, GInv R visited todo bp ->
    bfs_path_loop pick succ R f fuel visited todo bp = Some path -> exists p0, In p0 R /\ gpath p0 path f.
  Proof.
    induction fuel as [|fu IH]; intros visited todo bp path HI Ef; [discriminate|].
    cbn [bfs_path_loop] in Ef. destruct (pick todo) as [[src rest]|] eqn:Hp; [|discriminate].
    destruct (visit_targets f src (succ src) visited rest bp) as [[[v' t'] bp'] found] eqn:Ev.
    edestruct GInv_step as (Hok' & Hv' & Ht' & Hf'); [exact HI | exact Hp | exact Ev|].
    destruct found.
    - destruct (@make_path_gok R bp' Hok' [] f (S (length bp')) [] (or_intror (Hf' eq_refl))) as (p0 & path' & Em & Hp0 & Hpath); [lia|].
      rewrite !app_nil_r in Em. rewrite Em in Ef. inversion Ef; subst path'. exists p0. split; assumption.
    - apply (IH v' t' bp' path); [|exact Ef]. split; [exact Hok'|]. split; [exact Hv' | apply Ht'; reflexivity].
  Qed.

  Lemma closed_gstar (V : list A) : (forall x y, In x V -> In y (succ x) -> In y V) ->
    forall r f, gstar r f -> In r V -> In f V.
  Proof.
    intros Hcl r f Hs. induction Hs as [q|q q1 q2 Hin Hs IH]; intros Hq; [exact Hq|]. apply IH. apply Hcl with q; assumption.
  Qed.

  (* termination and success: V is any finite set closed under succ that contains the visited nodes *)
  Lemma bfs_loop_complete (V : list A) R f : (forall x y, In x V -> In y (succ x) -> In y V) ->
    forall fuel visited todo bp, GInv R visited todo bp ->
    ~ In f visited ->
    (forall x y, In x visited -> ~ In x todo -> In y (succ x) -> In y visited) ->
    NoDup visited -> incl visited V ->
    length V + length todo - length visited < fuel ->
    (exists r, In r visited /\ gstar r f) ->
    bfs_path_loop pick succ R f fuel visited todo bp <> None.
  Proof.
    intros HV. induction fuel as [|fu IH]; intros visited todo bp HI Hnf Hcl Hnd Hincl Hfuel (r & Hr & Hrf); [lia|].
    cbn [bfs_path_loop]. destruct (pick todo) as [[src rest]|] eqn:Hp.
    - destruct (visit_targets f src (succ src) visited rest bp) as [[[v' t'] bp'] found] eqn:Ev.
      edestruct GInv_step as (Hok' & Hv' & Ht' & Hf'); [exact HI | exact Hp | exact Ev|].
      destruct (picker_some pick todo src rest Hpick Hp) as [Hperm Hlen].
      destruct found.
      + destruct (@make_path_gok R bp' Hok' [] f (S (length bp')) [] (or_intror (Hf' eq_refl))) as (p0 & path' & Em & _); [lia|].
        rewrite !app_nil_r in Em. rewrite Em. discriminate.
      + destruct (visit_targets_spec _ _ _ _ _ _ _ _ _ _ Ev) as (news & -> & -> & Hndn & Hn & (-> & Hfn & Hall)).
        assert (Hsrc : In src visited).
        { destruct HI as (_ & _ & Ht). apply Ht, Hperm. left; reflexivity. }
        assert (Hnd' : NoDup (visited ++ news)).
        { apply NoDup_app_intro; [exact Hnd | exact Hndn|]. intros x Hx Hc. destruct (Hn x Hc) as [_ H2]. contradiction. }
        assert (Hincl' : incl (visited ++ news) V).
        { intros x Hx. apply in_app_or in Hx. destruct Hx as [Hx|Hx]; [apply Hincl; exact Hx|].
          destruct (Hn x Hx) as [H1 _]. apply HV with src; [apply Hincl; exact Hsrc | exact H1]. }
        apply IH.
        * split; [exact Hok'|]. split; [exact Hv' | apply Ht'; reflexivity].
        * intros Hc. apply in_app_or in Hc. destruct Hc as [Hc|Hc]; contradiction.
        * intros x y Hx Hnx Hy. apply in_or_app.
          assert (Hxn : ~ In x news) by (intros Hc; apply Hnx; apply in_or_app; right; exact Hc).
          assert (Hxr : ~ In x rest) by (intros Hc; apply Hnx; apply in_or_app; left; exact Hc).
          apply in_app_or in Hx. destruct Hx as [Hx|Hx]; [|contradiction].
          destruct (eqb_dec x src) as [->|Hne].
          -- apply Hall; exact Hy.
          -- left. apply Hcl with x; [exact Hx | | exact Hy]. intros Hc. apply Hperm in Hc. destruct Hc as [Hc|Hc]; contradiction.
        * exact Hnd'.
        * exact Hincl'.
        * pose proof (NoDup_incl_length Hnd' Hincl') as Hle. rewrite !app_length in *. lia.
        * exists r. split; [apply in_or_app; left; exact Hr | exact Hrf].
    - exfalso. apply (picker_none pick todo Hpick) in Hp. subst todo. apply Hnf.
      apply (closed_gstar visited) with r; [|exact Hrf | exact Hr].
      intros x y Hx Hy. apply Hcl with x; [exact Hx | intros [] | exact Hy].
  Qed.

  Lemma GInv_init R : GInv R (dedup R) (dedup R) [].
  Proof.
    split; [constructor|]. split; [|apply incl_refl]. intros v. rewrite dedup_In. cbn [map In]. tauto.
  Qed.

  (* partial correctness, for every fuel: a returned path is a genuine path from R to f *)
  Theorem bfs_path_sound fuel R f path : bfs_path pick succ fuel R f = Some path -> exists p0, In p0 R /\ gpath p0 path f.
  Proof.
    unfold bfs_path. destruct (mem f R) eqn:Em.
    - intros E. inversion E; subst. apply mem_In in Em. exists f. split; [exact Em | apply gp_one].
    - apply bfs_loop_sound. apply GInv_init.
  Qed.

  (* termination with success, for every admissible pick: the nodes reachable from R lie in a finite closed set V,
     the fuel exceeds |V|, and f is reachable from R *)
  Theorem bfs_path_complete (V : list A) fuel R f : (forall x y, In x V -> In y (succ x) -> In y V) -> incl R V ->
    length V < fuel -> (exists r, In r R /\ gstar r f) -> bfs_path pick succ fuel R f <> None.
  Proof.
    intros HV HR Hfuel (r & Hr & Hrf). unfold bfs_path. destruct (mem f R) eqn:Em; [discriminate|].
    apply mem_nIn in Em. apply (@bfs_loop_complete V R f HV); try assumption.
    - apply GInv_init.
    - rewrite dedup_In. exact Em.
    - intros x y Hx Hnx. contradiction.
    - apply dedup_NoDup.
    - intros x Hx. apply HR. apply (proj1 (dedup_In x R)). exact Hx.
    - lia.
    - exists r. split; [apply dedup_In; exact Hr | exact Hrf].
  Qed.
End BFSP.
Unset Implicit Arguments.

(* ================================================================= 3. pda_simulate_word *)
Lemma pda_eps_star_gstar P c c' : pda_eps_star P c c' <-> gstar (moves P (peps P)) c c'.
Proof.
  split; intros Hs.
  - induction Hs as [c|c c1 c2 H1 Hs IH]; [apply gs_refl | eapply gs_step; eassumption].
  - induction Hs as [c|c c1 c2 H1 Hs IH]; [apply pe_refl | eapply pe_step; eassumption].
Qed.

Lemma step_eps_row P (c1 c2 : config) cur : In c2 (moves P (peps P) c1) ->
  pda_step_ok P (make_row c1 cur) (make_row c2 cur) = true.
Proof.
  intros Hin. destruct c1 as [q1 s1], c2 as [q2 s2]. unfold make_row, pda_step_ok. cbn [fst snd].
  apply orb_true_iff. left. apply andb_true_iff. split; [apply eqb_refl | apply mem_In; exact Hin].
Qed.

Lemma step_sym_row P (c1 c2 : config) a cur : a <> peps P -> In c2 (moves P a c1) ->
  pda_step_ok P (make_row c1 (a :: cur)) (make_row c2 cur) = true.
Proof.
  intros Hne Hin. destruct c1 as [q1 s1], c2 as [q2 s2]. unfold make_row, pda_step_ok. cbn [fst snd].
  apply orb_true_iff. right. apply andb_true_iff. split; [|apply mem_In; exact Hin].
  apply andb_true_iff. split; [apply eqb_refl|]. apply negb_true_iff, Nat.eqb_neq. exact Hne.
Qed.

(* prefixing a partial run with an epsilon path *)
Lemma pda_prefix_run P p0 path front (cur : word) (result : list (nat * word * list nat)) :
  gpath (moves P (peps P)) p0 path front -> hd_error result = Some (make_row front cur) ->
  chain_ok (pda_step_ok P) result = true ->
  hd_error (map (fun r => make_row r cur) (removelast path) ++ result) = Some (make_row p0 cur) /\
  chain_ok (pda_step_ok P) (map (fun r => make_row r cur) (removelast path) ++ result) = true /\
  forall d, last (map (fun r => make_row r cur) (removelast path) ++ result) d = last result d.
Proof.
  intros Hp. induction Hp as [q|q q1 l f Hin Hp IH]; intros Hhd Hc.
  - cbn [removelast map app]. split; [exact Hhd|]. split; [exact Hc|]. intros d; reflexivity.
  - destruct (IH Hhd Hc) as (Hhd' & Hc' & Hl'). destruct (gpath_hd Hp) as [l' ->].
    change (removelast (q :: q1 :: l')) with (q :: removelast (q1 :: l')). cbn [map app].
    destruct (map (fun r => make_row r cur) (removelast (q1 :: l')) ++ result) as [|c r1] eqn:Er; [discriminate|].
    cbn [hd_error] in Hhd'. inversion Hhd'; subst c.
    split; [reflexivity|]. split.
    + rewrite chain_ok_cons, Hc', andb_true_r. apply step_eps_row. exact Hin.
    + intros d. rewrite last_cons_cons. apply Hl'.
Qed.

Section PDASimP.
  Variable pickc : picker config.
  Variable pick : picker config.
  Hypothesis Hpick : picker_ok pick.
  Variable limit : nat.
  Variable P : pda.

  (* ---------------- the two searches ---------------- *)
  (* partial correctness of pda_find_epsilon_path: every pick, every fuel, every R *)
  Theorem pda_find_epsilon_path_sound fuel R f path : pda_find_epsilon_path pick P fuel R f = Some path ->
    exists p0, In p0 R /\ gpath (moves P (peps P)) p0 path f.
  Proof. unfold pda_find_epsilon_path. apply (@bfs_path_sound config _ (moves P (peps P)) pick Hpick). Qed.

  (* termination with success: the configurations epsilon-reachable from R lie in a finite set V closed under
     epsilon moves, and the fuel exceeds |V| *)
  Theorem pda_find_epsilon_path_complete (V : list config) fuel R f :
    (forall x y, In x V -> In y (moves P (peps P) x) -> In y V) -> incl R V -> length V < fuel ->
    (exists r, In r R /\ pda_eps_star P r f) -> pda_find_epsilon_path pick P fuel R f <> None.
  Proof.
    intros HV HR Hfuel (r & Hr & Hs). unfold pda_find_epsilon_path.
    apply (@bfs_path_complete config _ (moves P (peps P)) pick Hpick V); try assumption.
    exists r. split; [exact Hr | apply pda_eps_star_gstar; exact Hs].
  Qed.

  Lemma pda_find_transition_sound R a target src : pda_find_transition pick P R a target = Some src ->
    In src R /\ In target (moves P a src).
  Proof.
    unfold pda_find_transition. destruct (pick (filter _ R)) as [[s rest]|] eqn:Ep; [|discriminate].
    intros E. inversion E; subst s. destruct (picker_some pick _ src rest Hpick Ep) as [Hperm _].
    assert (Hin : In src (filter (fun s => mem target (moves P a s)) R)) by (apply Hperm; left; reflexivity).
    apply filter_In in Hin. destruct Hin as [H1 H2]. apply mem_In in H2. split; assumption.
  Qed.

  Lemma pda_find_transition_complete R a target : (exists r, In r R /\ In target (moves P a r)) ->
    pda_find_transition pick P R a target <> None.
  Proof.
    intros (r & Hr & Ht). unfold pda_find_transition.
    destruct (pick (filter (fun s => mem target (moves P a s)) R)) as [[s rest]|] eqn:Ep; [discriminate|].
    exfalso. apply (picker_none pick _ Hpick) in Ep.
    assert (Hin : In r (filter (fun s => mem target (moves P a s)) R)) by (apply filter_In; split; [exact Hr | apply mem_In; exact Ht]).
    rewrite Ep in Hin. destruct Hin.
  Qed.

  (* ---------------- any returned run is genuine ---------------- *)
  Lemma pda_back_checked : forall rw rev_hist front cur result front' word' result',
    Forall (fun a => a <> peps P) rw ->
    pda_back pick P rw rev_hist front cur result = Some (front', word', result') ->
    hd_error result = Some (make_row front cur) -> chain_ok (pda_step_ok P) result = true ->
    word' = rev rw ++ cur /\ hd_error result' = Some (make_row front' word') /\
    chain_ok (pda_step_ok P) result' = true /\ forall d, last result' d = last result d.
  Proof.
    induction rw as [|a rw IH]; intros rev_hist front cur result front' word' result' Hw Eb Hhd Hc.
    - cbn [pda_back] in Eb. inversion Eb; subst. cbn [rev app]. split; [reflexivity|]. split; [exact Hhd|].
      split; [exact Hc | intros d; reflexivity].
    - inversion Hw as [|a' rw' Hane Hw']; subst.
      cbn [pda_back] in Eb. destruct rev_hist as [|Ecur [|T [|E hist']]]; try discriminate.
      destruct (pda_find_epsilon_path pick P (S (length Ecur)) T front) as [path|] eqn:Ep; [|discriminate].
      destruct (pda_find_epsilon_path_sound _ _ _ _ Ep) as (p0 & Hp0 & Hpath).
      destruct (gpath_hd Hpath) as [l' ->].
      destruct (pda_find_transition pick P E a p0) as [src|] eqn:Ef; [|discriminate].
      destruct (pda_find_transition_sound _ _ _ _ Ef) as [Hsrc Hstep].
      destruct (pda_prefix_run P p0 (p0 :: l') front cur result Hpath Hhd Hc) as (Hhd1 & Hc1 & Hl1).
      set (result1 := map (fun r => make_row r cur) (removelast (p0 :: l')) ++ result) in *.
      destruct (IH _ _ _ _ _ _ _ Hw' Eb eq_refl) as (Ew & Hhd' & Hc' & Hl').
      + destruct result1 as [|c r1]; [discriminate|]. cbn [hd_error] in Hhd1. inversion Hhd1; subst c.
        rewrite chain_ok_cons, Hc1, andb_true_r. apply step_sym_row; assumption.
      + split; [rewrite Ew; cbn [rev]; rewrite <- app_assoc; reflexivity|]. split; [exact Hhd'|]. split; [exact Hc'|].
        intros d. rewrite Hl'. destruct result1 as [|c r1]; [discriminate|]. rewrite last_cons_cons. apply Hl1.
  Qed.

  Theorem pda_simulate_gen_checked (w : word) run : Forall (fun a => a <> peps P) w ->
    pda_simulate_gen pickc pick limit P w = Some run -> pda_run_ok P w run = true.
  Proof.
    intros Hw. unfold pda_simulate_gen. cbv zeta.
    set (E0 := fst (pda_eclose pickc P limit [(pq0 P, [])])).
    set (final := last ([(pq0 P, [])] :: E0 :: pda_history pickc limit P w E0) []).
    destruct (existsb (fun r => mem (fst r) (pF P)) final); [|discriminate].
    destruct (pick (filter (fun r => mem (fst r) (pF P)) final)) as [[front rest]|] eqn:Ep; [|discriminate].
    destruct (picker_some pick _ front rest Hpick Ep) as [Hperm _].
    assert (Hfr : In front (filter (fun r => mem (fst r) (pF P)) final)) by (apply Hperm; left; reflexivity).
    apply filter_In in Hfr. destruct Hfr as [_ HfrF].
    destruct (pda_back pick P (rev w) _ front [] [make_row front []]) as [[[front' word'] result']|] eqn:Eb; [|discriminate].
    destruct (pda_find_epsilon_path pick P (S (length E0)) [(pq0 P, [])] front') as [path|] eqn:Epath; [|discriminate].
    intros E. inversion E; subst run. clear E.
    assert (Hrw : Forall (fun a => a <> peps P) (rev w)).
    { apply Forall_forall. intros a Ha. apply in_rev in Ha. rewrite Forall_forall in Hw. apply Hw; exact Ha. }
    destruct (pda_back_checked _ _ _ _ _ _ _ _ Hrw Eb eq_refl eq_refl) as (Ew & Hhd' & Hc' & Hl').
    rewrite rev_involutive, app_nil_r in Ew. subst word'.
    destruct (pda_find_epsilon_path_sound _ _ _ _ Epath) as (p0 & Hp0 & Hp).
    destruct Hp0 as [<-|[]].
    destruct (pda_prefix_run P (pq0 P, []) path front' w result' Hp Hhd' Hc') as (Hhd1 & Hc1 & Hl1).
    set (run := map (fun r => make_row r w) (removelast path) ++ result') in *.
    unfold pda_run_ok. destruct run as [|c0 run']; [discriminate|]. cbn [hd_error] in Hhd1. inversion Hhd1; subst c0.
    unfold make_row at 1. cbn [fst snd]. rewrite eqb_refl, Hc1, Hl1, Hl'. cbn [last andb make_row].
    unfold make_row. rewrite HfrF. reflexivity.
  Qed.

  (* ---------------- the forward history ---------------- *)
  Hypothesis Hpickc : picker_ok pickc.

  Definition ecl (R : list config) : list config * list config := pda_eclose pickc P limit R.

  Fixpoint pfinal (w : word) (E : list config) : list config :=
    match w with [] => E | a :: w' => pfinal w' (fst (ecl (pda_do_transition P a E))) end.
  Fixpoint untrunc (w : word) (E : list config) : Prop :=
    match w with [] => True | a :: w' => snd (ecl (pda_do_transition P a E)) = [] /\ untrunc w' (fst (ecl (pda_do_transition P a E))) end.

  Lemma pda_run_pfinal : forall (w : word) R trunc, fst (pda_run pickc P limit w R trunc) = pfinal w R.
  Proof.
    induction w as [|a w IH]; intros R trunc; [reflexivity|]. cbn [pda_run pfinal]. unfold ecl.
    destruct (pda_eclose pickc P limit (pda_do_transition P a R)) as [R1 t1]. cbn [fst]. apply IH.
  Qed.

  Lemma pda_run_untrunc : forall (w : word) R trunc R', pda_run pickc P limit w R trunc = (R', false) -> untrunc w R.
  Proof.
    induction w as [|a w IH]; intros R trunc R' E; [exact I|]. cbn [pda_run] in E. cbn [untrunc]. unfold ecl.
    destruct (pda_eclose pickc P limit (pda_do_transition P a R)) as [R1 t1]. cbn [fst snd].
    assert (Et := @pda_run_trunc _ _ _ _ _ _ _ E). apply orb_false_elim in Et. destruct Et as [_ Et].
    split; [destruct t1; [reflexivity | discriminate]|]. apply (IH _ _ _ E).
  Qed.

  Lemma history_snoc : forall (w : word) a E,
    pda_history pickc limit P (w ++ [a]) E =
    pda_history pickc limit P w E ++ [pda_do_transition P a (pfinal w E); fst (ecl (pda_do_transition P a (pfinal w E)))].
  Proof.
    induction w as [|b w IH]; intros a E; [reflexivity|].
    cbn [app pda_history pfinal]. rewrite IH. reflexivity.
  Qed.

  Lemma pfinal_snoc : forall (w : word) a E, pfinal (w ++ [a]) E = fst (ecl (pda_do_transition P a (pfinal w E))).
  Proof. induction w as [|b w IH]; intros a E; [reflexivity|]. cbn [app pfinal]. apply IH. Qed.

  Lemma untrunc_snoc : forall (w : word) a E, untrunc (w ++ [a]) E <->
    untrunc w E /\ snd (ecl (pda_do_transition P a (pfinal w E))) = [].
  Proof.
    induction w as [|b w IH]; intros a E; cbn [app untrunc pfinal]; [tauto|]. rewrite IH. tauto.
  Qed.

  Lemma last_history : forall (w : word) E d, last (E :: pda_history pickc limit P w E) d = pfinal w E.
  Proof.
    induction w as [|a w IH]; intros E d; [reflexivity|].
    cbn [pda_history pfinal]. rewrite !last_cons_cons. apply IH.
  Qed.

  Definition c0 : config := (pq0 P, []).
  Definition E0 : list config := fst (ecl [c0]).
  Definition PRH (w : word) : list (list config) := (rev (pda_history pickc limit P w E0) ++ [E0]) ++ [[c0]].

  Lemma PRH_snoc (w : word) a : PRH (w ++ [a]) =
    fst (ecl (pda_do_transition P a (pfinal w E0))) :: pda_do_transition P a (pfinal w E0) :: PRH w.
  Proof. unfold PRH. rewrite history_snoc, rev_app_distr. reflexivity. Qed.

  Lemma PRH_hd (w : word) : PRH w = pfinal w E0 :: tl (PRH w).
  Proof.
    destruct w as [|b w' _] using rev_ind; [reflexivity|]. rewrite PRH_snoc, pfinal_snoc. reflexivity.
  Qed.

  (* an untruncated closure is exact, finite and closed under epsilon moves *)
  Lemma ecl_exact R : snd (ecl R) = [] ->
    incl R (fst (ecl R)) /\
    (forall c, In c (fst (ecl R)) <-> exists r, In r R /\ pda_eps_star P r c) /\
    (forall x y, In x (fst (ecl R)) -> In y (moves P (peps P) x) -> In y (fst (ecl R))).
  Proof.
    unfold ecl. destruct (pda_eclose pickc P limit R) as [res todo] eqn:E. cbn [fst snd]. intros ->.
    pose proof (@pda_eclose_exact pickc P Hpickc limit R res E) as Hex.
    split; [|split].
    - intros c Hc. apply Hex. exists c. split; [exact Hc | apply pe_refl].
    - exact Hex.
    - intros x y Hx Hy. apply Hex in Hx. destruct Hx as (r & Hr & Hs). apply Hex. exists r. split; [exact Hr|].
      apply pda_eps_star_step_r with x; assumption.
  Qed.

  (* ---------------- the backward pass succeeds when no closure was truncated ---------------- *)
  Lemma pda_back_complete : forall (w : word), untrunc w E0 -> forall front cur result, In front (pfinal w E0) ->
    exists front' word' result', pda_back pick P (rev w) (PRH w) front cur result = Some (front', word', result') /\
                                 In front' E0.
  Proof.
    induction w as [|a w IH] using rev_ind; intros Hu front cur result Hfront.
    - exists front, cur, result. cbn [rev pda_back]. split; [reflexivity | exact Hfront].
    - apply untrunc_snoc in Hu. destruct Hu as [Hu Ha].
      rewrite rev_unit, PRH_snoc, (PRH_hd w). cbn [pda_back].
      set (T := pda_do_transition P a (pfinal w E0)) in *.
      rewrite pfinal_snoc in Hfront. fold T in Hfront.
      destruct (ecl_exact T Ha) as (Hincl & Hex & Hclosed).
      destruct (pda_find_epsilon_path pick P (S (length (fst (ecl T)))) T front) as [path|] eqn:Ep.
      2:{ exfalso. revert Ep. apply (pda_find_epsilon_path_complete (fst (ecl T))); [exact Hclosed | exact Hincl | lia|].
          apply Hex. exact Hfront. }
      destruct (pda_find_epsilon_path_sound _ _ _ _ Ep) as (p0 & Hp0 & Hpath).
      destruct (gpath_hd Hpath) as [l' ->].
      destruct (pda_find_transition pick P (pfinal w E0) a p0) as [src|] eqn:Ef.
      2:{ exfalso. revert Ef. apply pda_find_transition_complete. apply pda_do_transition_In. exact Hp0. }
      destruct (pda_find_transition_sound _ _ _ _ Ef) as [Hsrc _].
      rewrite <- (PRH_hd w). apply IH; assumption.
  Qed.

  Definition sim_body (w : word) (final : list config) (rh : list (list config)) : option (list (nat * word * list nat)) :=
    if existsb (fun r => mem (fst r) (pF P)) final then
      match pick (filter (fun r => mem (fst r) (pF P)) final) with
      | None => None
      | Some (front, _) =>
        match pda_back pick P (rev w) rh front [] [make_row front []] with
        | None => None
        | Some (front', word', result) =>
          match pda_find_epsilon_path pick P (S (length E0)) [c0] front' with
          | None => None
          | Some path => Some (map (fun r => make_row r word') (removelast path) ++ result)
          end
        end
      end
    else None.

  Lemma pda_simulate_gen_unfold (w : word) : pda_simulate_gen pickc pick limit P w = sim_body w (pfinal w E0) (PRH w).
  Proof.
    transitivity (sim_body w (last ([c0] :: E0 :: pda_history pickc limit P w E0) []) (rev ([c0] :: E0 :: pda_history pickc limit P w E0)));
      [reflexivity|].
    rewrite last_cons_cons, last_history. reflexivity.
  Qed.

  Lemma accepts_gen (w : word) (l : list config) :
    (let '(R0, t0) := pda_eclose pickc P limit l in
     let '(R, tr) := pda_run pickc P limit w R0 (match t0 with [] => false | _ => true end) in
     (existsb (fun c => mem (fst c) (pF P)) R, tr)) =
    (existsb (fun c => mem (fst c) (pF P)) (pfinal w (fst (ecl l))),
     snd (pda_run pickc P limit w (fst (ecl l)) (match snd (ecl l) with [] => false | _ => true end))).
  Proof.
    unfold ecl. destruct (pda_eclose pickc P limit l) as [R0 t0]. cbn [fst snd].
    rewrite <- (pda_run_pfinal w R0 (match t0 with [] => false | _ => true end)).
    destruct (pda_run pickc P limit w R0 _) as [R tr]. reflexivity.
  Qed.

  Lemma pda_accepts_unfold (w : word) : pda_accepts pickc P limit w =
    (existsb (fun c => mem (fst c) (pF P)) (pfinal w E0),
     snd (pda_run pickc P limit w E0 (match snd (ecl [c0]) with [] => false | _ => true end))).
  Proof. exact (accepts_gen w [c0]). Qed.

  Theorem pda_simulate_gen_sound (w : word) : Forall (fun a => a <> peps P) w ->
    pda_accepts pickc P limit w = (true, false) ->
    exists run, pda_simulate_gen pickc pick limit P w = Some run /\ pda_run_ok P w run = true.
  Proof.
    intros Hw Hacc.
    assert (Hsome : exists run, pda_simulate_gen pickc pick limit P w = Some run).
    { rewrite pda_accepts_unfold in Hacc. apply pair_equal_spec in Hacc. destruct Hacc as [Hv Htr].
      destruct (pda_run pickc P limit w E0 _) as [R tr] eqn:Er. cbn [snd] in Htr. subst tr.
      assert (Ht0 := @pda_run_trunc _ _ _ _ _ _ _ Er).
      assert (Hu := pda_run_untrunc _ _ _ _ Er).
      assert (Ht0' : snd (ecl [c0]) = []) by (destruct (snd (ecl [c0])); [reflexivity | discriminate]).
      rewrite pda_simulate_gen_unfold. unfold sim_body. rewrite Hv.
      destruct (pick (filter (fun r => mem (fst r) (pF P)) (pfinal w E0))) as [[front rest]|] eqn:Ep.
      2:{ exfalso. apply (picker_none pick _ Hpick) in Ep. apply existsb_exists in Hv. destruct Hv as (c & Hc & HcF).
          assert (Hin : In c (filter (fun r => mem (fst r) (pF P)) (pfinal w E0))) by (apply filter_In; split; assumption).
          rewrite Ep in Hin. destruct Hin. }
      destruct (picker_some pick _ front rest Hpick Ep) as [Hperm _].
      assert (Hfr : In front (filter (fun r => mem (fst r) (pF P)) (pfinal w E0))) by (apply Hperm; left; reflexivity).
      apply filter_In in Hfr. destruct Hfr as [Hfr _].
      destruct (pda_back_complete w Hu front [] [make_row front []] Hfr) as (front' & word' & result' & Eb & Hf').
      rewrite Eb.
      destruct (ecl_exact [c0] Ht0') as (Hincl & Hex & Hclosed). fold E0 in Hincl, Hex, Hclosed.
      destruct (pda_find_epsilon_path pick P (S (length E0)) [c0] front') as [path|] eqn:Epath.
      2:{ exfalso. revert Epath. apply (pda_find_epsilon_path_complete E0); [exact Hclosed | exact Hincl | lia|].
          apply Hex. exact Hf'. }
      eexists. reflexivity. }
    destruct Hsome as (run & Erun). exists run. split; [exact Erun|].
    apply pda_simulate_gen_checked; assumption.
  Qed.

  (* rejected words: nothing is returned (no hypothesis on truncation is needed for this direction) *)
  Theorem pda_simulate_gen_none (w : word) : fst (pda_accepts pickc P limit w) = false ->
    pda_simulate_gen pickc pick limit P w = None.
  Proof.
    intros Hacc. rewrite pda_accepts_unfold in Hacc. cbn [fst] in Hacc.
    rewrite pda_simulate_gen_unfold. unfold sim_body. rewrite Hacc. reflexivity.
  Qed.
End PDASimP.

(* ---------------- explicit readings of the two searches ---------------- *)
Theorem pda_find_epsilon_path_correct (pick : picker config) (P : pda) (fuel : nat) (R : list config) (f : config) (path : list config) :
  picker_ok pick -> pda_find_epsilon_path pick P fuel R f = Some path ->
  exists p0, hd_error path = Some p0 /\ In p0 R /\ last path p0 = f /\
    forall i, S i < length path -> In (nth (S i) path f) (moves P (peps P) (nth i path f)).
Proof.
  intros Hpick E. destruct (pda_find_epsilon_path_sound pick Hpick P fuel R f path E) as (p0 & Hp0 & Hp).
  destruct (gpath_explicit Hp) as (Hhd & Hl & Hn). exists p0.
  split; [exact Hhd|]. split; [exact Hp0|]. split; [apply Hl|]. intros i Hi. apply Hn; exact Hi.
Qed.

(* with the fuel used by pda_simulate: R's closure E was computed without truncation and f is a member of it *)
Theorem pda_find_epsilon_path_terminates (pickc pick : picker config) (P : pda) (limit : nat) (R E : list config) (f : config) :
  picker_ok pickc -> picker_ok pick -> pda_eclose pickc P limit R = (E, []) -> In f E ->
  pda_find_epsilon_path pick P (S (length E)) R f <> None.
Proof.
  intros Hpickc Hpick HE Hf.
  assert (Hs : snd (ecl pickc limit P R) = []) by (unfold ecl; rewrite HE; reflexivity).
  destruct (ecl_exact pickc limit P Hpickc R Hs) as (Hincl & Hex & Hclosed).
  unfold ecl in Hincl, Hex, Hclosed. rewrite HE in Hincl, Hex, Hclosed. cbn [fst] in Hincl, Hex, Hclosed.
  apply (pda_find_epsilon_path_complete pick Hpick P E); [exact Hclosed | exact Hincl | lia|].
  apply Hex. exact Hf.
Qed.

(* ---------------- pda_simulate_word, one picker ---------------- *)
Lemma pda_word_no_eps (P : pda) (w : word) : pda_wf P -> Forall (fun a => In a (pSg P)) w -> Forall (fun a => a <> peps P) w.
Proof. intros Hwf Hw. apply over_Sg_no_eps; [apply pda_wf_eps_not_Sg; exact Hwf | exact Hw]. Qed.

(* every returned run is genuine: every admissible pick, every limit (closures may have been truncated) *)
Theorem pda_simulate_checked (pick : picker config) (P : pda) (limit : nat) (w : word) (run : list (nat * word * list nat)) :
  picker_ok pick -> Forall (fun a => a <> peps P) w ->
  pda_simulate pick limit P w = Some run -> pda_run_ok P w run = true.
Proof. intros Hpick Hw. unfold pda_simulate. apply pda_simulate_gen_checked; assumption. Qed.

Theorem pda_simulate_sound (pick : picker config) (P : pda) (limit : nat) (w : word) :
  picker_ok pick -> pda_wf P -> Forall (fun a => In a (pSg P)) w -> pda_accepts pick P limit w = (true, false) ->
  exists run, pda_simulate pick limit P w = Some run /\ pda_run_ok P w run = true.
Proof.
  intros Hpick Hwf Hw Hacc. unfold pda_simulate.
  apply pda_simulate_gen_sound; [exact Hpick | exact Hpick | apply pda_word_no_eps; assumption | exact Hacc].
Qed.

Theorem pda_simulate_none (pick : picker config) (P : pda) (limit : nat) (w : word) :
  picker_ok pick -> pda_wf P -> Forall (fun a => In a (pSg P)) w -> pda_accepts pick P limit w = (false, false) ->
  pda_simulate pick limit P w = None.
Proof.
  intros _ _ _ Hacc. unfold pda_simulate. apply pda_simulate_gen_none. rewrite Hacc. reflexivity.
Qed.

(* stronger: whatever was truncated, a rejecting verdict of the forward pass means that nothing is returned *)
Theorem pda_simulate_none_any (pick : picker config) (P : pda) (limit : nat) (w : word) :
  fst (pda_accepts pick P limit w) = false -> pda_simulate pick limit P w = None.
Proof. intros Hacc. unfold pda_simulate. apply pda_simulate_gen_none. exact Hacc. Qed.

Print Assumptions cfg_derive_sound.
Print Assumptions cfg_derive_none.
Print Assumptions cfg_derive_clash.
Print Assumptions bfs_path_sound.
Print Assumptions bfs_path_complete.
Print Assumptions pda_find_epsilon_path_correct.
Print Assumptions pda_find_epsilon_path_complete.
Print Assumptions pda_find_epsilon_path_terminates.
Print Assumptions pda_simulate_gen_checked.
Print Assumptions pda_simulate_gen_sound.
Print Assumptions pda_simulate_gen_none.
Print Assumptions pda_simulate_checked.
Print Assumptions pda_simulate_sound.
Print Assumptions pda_simulate_none.
Print Assumptions pda_simulate_none_any.

(* ================================================================= 4. the models run *)
(* a^n b^n (n >= 0): a = 1, b = 2, epsilon = 9, stack symbols $ = 5 and x = 6;
   0 --eps,eps->$--> 1;  1 --a,eps->x--> 1;  1 --eps,eps->eps--> 2;  2 --b,x->eps--> 2;  2 --eps,$->eps--> 3 *)
Definition anbn : pda := mkPDA [0; 1; 2; 3] [1; 2] [5; 6]
  [((0, 9, 9), [(1, 5)]); ((1, 1, 9), [(1, 6)]); ((1, 9, 9), [(2, 9)]); ((2, 2, 6), [(2, 9)]); ((2, 9, 5), [(3, 9)])] 0 [0; 3] 9.

Example anbn_wf : pda_wf_b anbn = true.
Proof. vm_compute. reflexivity. Qed.

Example anbn_aabb : pda_simulate pick_head 50 anbn [1; 1; 2; 2] =
  Some [(0, [1; 1; 2; 2], []); (1, [1; 1; 2; 2], [5]); (1, [1; 2; 2], [6; 5]); (1, [2; 2], [6; 6; 5]);
        (2, [2; 2], [6; 6; 5]); (2, [2], [6; 5]); (2, [], [5]); (3, [], [])].
Proof. vm_compute. reflexivity. Qed.

Example anbn_aabb_last : match pda_simulate pick_last 50 anbn [1; 1; 2; 2] with
                         | Some run => pda_run_ok anbn [1; 1; 2; 2] run
                         | None => false
                         end = true.
Proof. vm_compute. reflexivity. Qed.

Example anbn_abb : pda_accepts pick_head anbn 50 [1; 2; 2] = (false, false) /\ pda_simulate pick_head 50 anbn [1; 2; 2] = None.
Proof. vm_compute. split; reflexivity. Qed.

Example anbn_empty : pda_simulate pick_head 50 anbn [] = Some [(0, [], [])].
Proof. vm_compute. reflexivity. Qed.

(* S=0 -> A C;  C=3 -> A B | b;  A=1 -> a;  B=2 -> b   (a = 10, b = 11); the word a a b *)
Definition cnf_ex : cfg := mkCFG [0; 1; 2; 3] [10; 11]
  [mkRule 0 0 [Var 1; Var 3]; mkRule 3 1 [Var 1; Var 2]; mkRule 1 2 [Tm 10]; mkRule 2 3 [Tm 11]; mkRule 3 4 [Tm 11]] 0.

Example cnf_ex_ok : is_chomsky_b cnf_ex = true /\ cfg_wf_b cnf_ex = true /\ cnf_accepts cnf_ex [10; 10; 11] = true.
Proof. vm_compute. repeat split; reflexivity. Qed.

Example cnf_ex_leftmost : cfg_derive cnf_ex [10; 10; 11] 0 =
  Some [[Var 0]; [Var 1; Var 3]; [Tm 10; Var 3]; [Tm 10; Var 1; Var 2]; [Tm 10; Tm 10; Var 2]; [Tm 10; Tm 10; Tm 11]].
Proof. vm_compute. reflexivity. Qed.

Example cnf_ex_rightmost : cfg_derive cnf_ex [10; 10; 11] 1 =
  Some [[Var 0]; [Var 1; Var 3]; [Var 1; Var 1; Var 2]; [Var 1; Var 1; Tm 11]; [Var 1; Tm 10; Tm 11]; [Tm 10; Tm 10; Tm 11]].
Proof. vm_compute. reflexivity. Qed.

Example cnf_ex_checked :
  match cfg_derive cnf_ex [10; 10; 11] 0, cfg_derive cnf_ex [10; 10; 11] 1 with
  | Some l, Some r => derivation_ok cnf_ex 0 [10; 10; 11] l && derivation_ok cnf_ex 1 [10; 10; 11] r
  | _, _ => false
  end = true.
Proof. vm_compute. reflexivity. Qed.

Example cnf_ex_rejected : cnf_accepts cnf_ex [10; 11; 11] = false /\ cfg_derive cnf_ex [10; 11; 11] 0 = None.
Proof. vm_compute. split; reflexivity. Qed.
