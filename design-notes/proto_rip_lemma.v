(* Design note (calibration sketch, no axioms): the rip lemma of GNFA state elimination (C06),
   with edge labels as languages.  d i j is the language on the edge i -> j; a path may pass only
   through intermediate states in Q.  Ripping r0 replaces d by
       d' i j = d i r0 . (d r0 r0)* . d r0 j  +  d i j        and Q by Q \ {r0}.           *)
From Coq Require Import List.
Import ListNotations.

Section Rip.
  Variable St : Type.
  Definition word := list nat.
  Definition lang := word -> Prop.
  Variable d : St -> St -> lang.
  Variable Q : St -> Prop.           (* internal states still present *)
  Variable r0 : St.
  Hypothesis r0_dec : forall q : St, q = r0 \/ q <> r0.

  Inductive star (L : lang) : lang :=
  | star_nil : star L []
  | star_app u v : L u -> star L v -> star L (u ++ v).

  (* paths from p to q whose intermediate states satisfy I *)
  Inductive gpath (I : St -> Prop) (e : St -> St -> lang) : St -> St -> lang :=
  | gp_edge p q w : e p q w -> gpath I e p q w
  | gp_via p r q u v : I r -> e p r u -> gpath I e r q v -> gpath I e p q (u ++ v).

  Definition Q' : St -> Prop := fun q => Q q /\ q <> r0.
  Definition d' : St -> St -> lang := fun i j w =>
    d i j w \/ exists u v x, w = u ++ v ++ x /\ d i r0 u /\ star (d r0 r0) v /\ d r0 j x.

  (* (<=) every path of the ripped automaton is a path of the original one, provided r0 is internal *)
  Hypothesis r0_in : Q r0.

  Lemma loops_then v : star (d r0 r0) v -> forall q x, gpath Q d r0 q x -> gpath Q d r0 q (v ++ x).
  Proof.
    induction 1 as [|u v Hu _ IH]; intros q x Hx; cbn; auto.
    rewrite <- app_assoc. apply gp_via with r0; auto.
  Qed.

  Lemma rip_sound p q w : gpath Q' d' p q w -> gpath Q d p q w.
  Proof.
    induction 1 as [p q w He|p r q u v Hr He _ IH].
    - destruct He as [He|(u & v & x & -> & Hu & Hv & Hx)].
      + apply gp_edge; auto.
      + apply gp_via with r0; auto. apply loops_then; auto. apply gp_edge; auto.
    - destruct Hr as [Hr _]. destruct He as [He|(u1 & v1 & x1 & -> & Hu & Hv & Hx)].
      + apply gp_via with r; auto.
      + rewrite <- !app_assoc. apply gp_via with r0; auto.
        rewrite app_assoc. rewrite <- app_assoc. apply loops_then; auto. apply gp_via with r; auto.
  Qed.

  (* (=>) cut the path at its visits to r0 *)
  (* a path that starts in r0: some loops, then an exit edge to k, then a ripped path from k (or k is the target) *)
  Lemma rip_complete_gen p q w : gpath Q d p q w -> q <> r0 ->
      (p <> r0 -> gpath Q' d' p q w) /\
      (p = r0 -> exists v x rest k, w = v ++ x ++ rest /\ star (d r0 r0) v /\ d r0 k x /\
                   ((k = q /\ rest = []) \/ (Q' k /\ gpath Q' d' k q rest))).
  Proof.
    intros H Hq. induction H as [p q w He|p r q u v Hr He Hp IH].
    - split.
      + intros _. apply gp_edge. left; auto.
      + intros ->. exists [], w, [], q. repeat split; auto using star_nil. now rewrite app_nil_r.
    - specialize (IH Hq). destruct IH as [IH1 IH2]. split.
      + intros Hpne. destruct (r0_dec r) as [->|Hrne].
        * destruct (IH2 eq_refl) as (v1 & x & rest & k & -> & Hv1 & Hx & Hk).
          destruct Hk as [[-> ->]|[Hk Hrest]].
          -- rewrite app_nil_r. apply gp_edge. right. exists u, v1, x. auto.
          -- rewrite !app_assoc. apply gp_via with k; auto.
             right. exists u, v1, x. rewrite <- !app_assoc. auto.
        * apply gp_via with r; auto. { split; auto. } left; auto.
      + intros ->. destruct (r0_dec r) as [->|Hrne].
        * destruct (IH2 eq_refl) as (v1 & x & rest & k & -> & Hv1 & Hx & Hk).
          exists (u ++ v1), x, rest, k. repeat split; auto.
          -- now rewrite <- app_assoc.
          -- apply star_app; auto.
        * exists [], u, v, r. repeat split; auto using star_nil.
          right. split; [split; auto|]. apply IH1; auto.
  Qed.

  Theorem rip_lemma p q w : p <> r0 -> q <> r0 -> (gpath Q d p q w <-> gpath Q' d' p q w).
  Proof.
    intros Hp Hq. split.
    - intros H. apply (proj1 (rip_complete_gen p q w H Hq) Hp).
    - apply rip_sound.
  Qed.
End Rip.
