From GT Require Import Base.Prelude Model.Regexp Judge.Common.

(* bounded language comparison through the proved-correct matcher *)
Definition re_agree_upto (r s : re) (n : nat) : bool :=
  let Sg := dedup (re_symbols r ++ re_symbols s) in
  forallb (fun w => Bool.eqb (acc r w) (acc s w)) (words_upto Sg n).

(* one case: expression r, words ws, the implementation's verdicts (None = exception/timeout),
   the implementation's simplified expression and its regexp_size of r and of simplify(r) *)
Definition judge_C05 (r : re) (ws : list word) (oaccs : list (option bool)) (osimpl : option re)
           (osz : option (nat * nat)) : nat :=
  worst_code [
    check (eqb oaccs (map (fun w => Some (acc r w)) ws)) 2;
    match osimpl with
    | None => 3
    | Some s =>
      if re_eqb s (simplify r) then 0
      else if negb (re_agree_upto s r 5) then 4
      else if negb (Nat.leb (nodes s) (nodes r) && Nat.leb (regexp_size s) (regexp_size r)) then 5
      else 1
    end;
    match osz, osimpl with
    | Some (a, b), Some s => check (Nat.eqb a (regexp_size r) && Nat.eqb b (regexp_size s)) 6
    | None, _ => 6
    | _, None => 0
    end ].

Definition explain_C05 (r : re) (ws : list word) := (map (acc r) ws, simplify r, regexp_size r).
