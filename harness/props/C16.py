"""C16 - printing an object and parsing the text returns the same object (token-level models + the real printers/parsers)."""
import coqlit as L
import gen as G
import conv
import textmodel as TM
import props.C17 as C17
import syntax as SX

COQ_IMPORTS = ['Model.Tokens', 'Model.Parser', 'Model.Regexp', 'Model.CFG', 'Model.RegexpSyntax', 'Model.CFGText', 'Judge.Common', 'Judge.C17_judge', 'Judge.C16_judge', 'Judge.Extra_judge']
PDA_FREE = True      # no PDA is involved: the recycling pass runs with GambaTools.pda_epsilon_closure_max_iterations = 3
EXTRA_JUDGES = ['Extra']
RULE = ('random DFAs / NFAs / PDAs / TMs (1-4 states; empty accepting set, empty alphabet, isolated states, several labels per edge, epsilon / blank in {_, ε, e} resp. {_, □}): print_X then parse_X; '
        'regular expressions: all trees <= 4 nodes and random trees over {a,b,c}: print_regexp / str() then parse_regexp, print_regexp_simple then parse_simple_regexp; simple grammars (single-letter names, every variable has a rule): '
        'cfg_print_simple then parse_simple_cfg. Relation: the re-parsed automaton equals the original field by field and equals the model parser\'s result on the same text, and the model printer/parser round trip holds on the object; '
        'regexps: same printed form and same language (bounded check + exact equivalence through the proved regexp->NFA and subset constructions); grammars: equal grammar (Python-level comparison, format not modelled). '
        'Non-trivial = the object has >= 2 transitions / operators / rules; distinct by object.')
RULE += ' Added after the seeded rounds: character-level comparison of the regexp printers / parsers and of the simple CFG text format with Model/RegexpSyntax.v, Model/CFGText.v (informational).'
CODES = dict(C17.CODES)
CODES.update({13: 'model DFA print/parse round trip fails (machinery or model)', 23: 'model NFA round trip fails', 33: 'model PDA round trip fails', 43: 'model TM round trip fails',
              50: 'a printed regular expression could not be re-parsed', 51: 're-parsed regular expression prints differently', 52: 're-parsed regular expression has a different language',
              60: 'cfg_print_simple / parse_simple_cfg raised', 61: 're-parsed grammar differs from the original'})
ASSUMPTIONS = ['state names \\w+ and not keywords; single-character symbols; printable epsilon / blank', 'grammars in the simple format with every variable having a rule, start variable first']
RESIDUE = 'sorted(), str.format, io.StringIO of the printers; str.split; the ANTLR-generated regexp parsers and the simple CFG text format (differentially tested, not modelled)'
SHARD = 60


def gen(rng, tier):
    quick = tier == 'quick'
    cases = []
    for kind in ('dfa', 'nfa', 'pda', 'tm'):
        for _ in range((150 if kind != 'tm' else 260) if quick else 3000):
            x = C17.random_obj(rng, kind)
            reserved = {'dfa': ['input_symbols'], 'nfa': ['input_symbols', 'epsilon'], 'pda': ['input_symbols', 'stack_symbols', 'epsilon'],
                        'tm': ['input_symbols', 'tape_symbols', 'blank', 'accept', 'reject']}[kind] + ['states', 'final', 'initial']
            if any(q in reserved for q in x['Q']):
                continue
            if kind == 'nfa':
                x['delta'] = [e for e in x['delta'] if e[2]]
            cases.append({'kind': kind, 'X': x})
    trees = [t for n in range(1, 5) for t in G.re_trees(n, 2)]
    if quick:
        trees = rng.sample(trees, 100)
    trees += [G.random_re(rng, rng.randint(2, 5), 3) for _ in range(100 if quick else 3000)]
    for t in trees:
        if G.re_nodes(t) <= 14:
            cases.append({'kind': 're', 'X': t})
    for _ in range(120 if quick else 2000):
        g = G.random_cfg(rng, rng.randint(1, 4), rng.randint(1, 2), rng.randint(1, 6), maxlen=3)
        used = [g['S']] + [v for v, _ in g['R'] if v != g['S']]
        have = set(v for v, _ in g['R'])
        rules = list(g['R'])
        for v in g['V']:
            if v not in have:
                rules.append([v, [['T', 'a']]])
        # the simple text format denotes grammars whose first rule belongs to the start variable and whose terminals are the used ones
        rules.sort(key=lambda r: 0 if r[0] == g['S'] else 1)
        cases.append({'kind': 'cfg', 'X': G.mk_cfg(rules, g['S']), 'cfg_eps': rng.choice([None, None, 'e', 'z'])})
    return cases


def observe(c):
    from implutil import safe, ok
    k = c['kind']
    x = c['X']
    if k in ('dfa', 'nfa', 'pda', 'tm'):
        if k == 'dfa':
            from gambatools.dfa_algorithms import print_dfa as pr
            obj = conv.dfa_obj(x)
        elif k == 'nfa':
            from gambatools.nfa_algorithms import print_nfa as pr
            obj = conv.nfa_obj(x)
        elif k == 'pda':
            from gambatools.pda_algorithms import print_pda as pr
            obj = conv.pda_obj(x)
        else:
            from gambatools.tm_algorithms import print_tm as pr
            obj = conv.tm_obj(x)
        t = safe(pr, obj)
        if not ok(t):
            return {'text': None, 'res': None, 'err': t[1]}
        res, err = C17.parse_obs(k, t[1])
        return {'text': t[1], 'res': res, 'err': err}
    if k == 're':
        from gambatools.regexp import print_regexp, print_regexp_simple
        from gambatools.regexp_parser import parse_regexp
        from gambatools.regexp_simple_parser import parse_simple_regexp
        r = conv.re_to_obj(x)
        out = []
        texts = [t[1] if ok(t) else None for t in (safe(print_regexp_simple, r), safe(print_regexp, r), safe(str, r))]
        for pr, pa in ((print_regexp, parse_regexp), (str, parse_regexp), (print_regexp_simple, parse_simple_regexp)):
            t = safe(pr, r)
            p = safe(pa, t[1]) if ok(t) else ('err', 'print')
            if ok(p) and p[1] is not None:
                try:
                    tree = conv.re_from_obj(p[1])
                    out.append([tree, pr(p[1]) == t[1]])
                except Exception:
                    out.append([None, False])
            else:
                out.append([None, False])
        return {'re': out, 'texts': texts}
    from gambatools.cfg_algorithms import cfg_print_simple, parse_simple_cfg
    if c.get('cfg_eps'):
        text0 = 'epsilon = %s\n' % c['cfg_eps'] + conv.cfg_simple_text(x).replace('_', c['cfg_eps'])
        Gm = parse_simple_cfg(text0)
    else:
        Gm = conv.cfg_obj(x)
    t = safe(cfg_print_simple, Gm)
    p = safe(parse_simple_cfg, t[1]) if ok(t) else ('err', 'print')
    same = None
    if ok(p):
        G2 = p[1]
        same = bool(G2.V == Gm.V and G2.Sigma == Gm.Sigma and G2.S == Gm.S and sorted(map(str, G2.R)) == sorted(map(str, Gm.R)))
    return {'cfg_same': same, 'text': t[1] if ok(t) else None, 'G': conv.cfg_case(Gm), 'G2': conv.cfg_case(p[1]) if ok(p) else None}


def encode(c, o):
    k = c['kind']
    x = c['X']
    if k in ('dfa', 'nfa', 'pda', 'tm'):
        ch = TM.Chars()
        if o['text'] is None:
            return '10'
        return 'judge_rt_%s %s %s %s' % (k, ch.text(o['text']), L.option(o['res'], lambda y: C17.REC[k](ch, y)), C17.REC[k](ch, x))
    if k == 're':
        main = 'judge_rt_re %s %s' % (L.re(x), L.lst(L.pair(L.option(t, L.re), L.boolean(same)) for t, same in o['re']))
        # character-level layer (Model/RegexpSyntax.v): the three printed texts and the trees built by the generated parsers
        rc = lambda t: 'None' if t is None else '(Some %s)' % SX.re_chars(t)
        syn = 'judge_re_syntax %s %s %s %s %s %s' % (SX.re_chars(x), SX.opt_codes(o['texts'][0]), SX.opt_codes(o['texts'][1]), SX.opt_codes(o['texts'][2]),
                                                      rc(o['re'][2][0]), rc(o['re'][0][0]))
        return 'worst_code [%s; %s]' % (main, syn)
    main = '60' if o['cfg_same'] is None else ('0' if o['cfg_same'] else '61')
    g = o.get('G')
    single = lambda gg: gg is not None and all(len(n) == 1 and SX.codes(n) is not None for n in gg['V'] + gg['Sigma'])
    if not single(g) or o['text'] is None:
        return main
    lines = SX.cfg_lines(o['text'])
    if lines is None or any(SX.codes(a) is None for _, alts in lines for a in alts):
        return main
    g2 = o.get('G2')
    txt = 'judge_cfg_text %s (Some %s) %s' % (SX.cfg_chars(g), SX.cfg_lines_lit(lines), '(Some %s)' % SX.cfg_chars(g2) if single(g2) else 'None')
    return 'worst_code [%s; %s]' % (main, txt)


def explain(c):
    return '0'


def key(c):
    import json
    return c['kind'] + '|' + json.dumps(c['X'], sort_keys=True)


def nontrivial(c, o):
    x = c['X']
    if c['kind'] == 're':
        return G.re_nodes(x) >= 3
    if c['kind'] == 'cfg':
        return len(x['R']) >= 2
    return len(x['delta']) >= 2


def describe(c):
    return {'kind': c['kind'], 'object': c['X']}


def reproduce(c):
    return 'print the object with print_%s and parse it back with parse_%s (see "case")' % (c['kind'], c['kind'])


def signature(c, o, code):
    return 'C16:code%d:%s' % (code, key(c))


def distribution(cases, obs):
    d = {}
    for c in cases:
        d[c['kind']] = d.get(c['kind'], 0) + 1
    return d


LEVEL_TEXT = ('Coq theorems about the token-level printer and parser models (round trip for all four automaton kinds, see evidence for _partial items) and the proved regexp semantics; tied to the Python by evaluating, inside Coq, '
              'the model parser on the implementation\'s printed text, the model round trip on the object, and exact language equality of every re-parsed regular expression.')
LEVEL_NOTE = 'Trusted: Coq kernel + vm_compute, models Model/Tokens.v, Model/Parser.v, Model/Printer.v, Model/Regexp.v, harness tokenisation. No axioms. The ANTLR regexp parsers and the simple CFG format are differentially tested, not modelled.'
TECHNIQUE = 'Coq proof over token-level printer/parser models + in-Coq differential correspondence; exact regexp equivalence oracle'
