(* canonical form of a finite set of nat: sorted, duplicate-free (model of sorted(Q) in print_state_set) *)
From GT Require Import Base.Prelude.

Fixpoint insert_sorted (x : nat) (l : list nat) : list nat :=
  match l with
  | [] => [x]
  | y :: l' => if Nat.ltb x y then x :: l else if Nat.eqb x y then l else y :: insert_sorted x l'
  end.
Definition canon_nat (l : list nat) : list nat := fold_right insert_sorted [] l.

Lemma insert_sorted_In x y l : In y (insert_sorted x l) <-> y = x \/ In y l.
Proof.
  induction l as [|z l IH]; cbn [insert_sorted In]; [intuition (subst; auto)|].
  destruct (Nat.ltb x z); [cbn [In]; intuition (subst; auto)|]. destruct (Nat.eqb x z) eqn:E.
  - apply Nat.eqb_eq in E. subst. cbn [In]. intuition (subst; auto).
  - cbn [In]. rewrite IH. intuition (subst; auto).
Qed.
Lemma canon_nat_In y l : In y (canon_nat l) <-> In y l.
Proof. induction l as [|x l IH]; cbn; [tauto|]. rewrite insert_sorted_In, IH. intuition (subst; auto). Qed.

Inductive ssorted : list nat -> Prop :=
| ss_nil : ssorted []
| ss_one x : ssorted [x]
| ss_cons x y l : x < y -> ssorted (y :: l) -> ssorted (x :: y :: l).

Lemma insert_sorted_sorted x l : ssorted l -> ssorted (insert_sorted x l).
Proof.
  induction 1 as [|y|y z l Hyz Hs IH]; cbn [insert_sorted].
  - constructor.
  - destruct (Nat.ltb x y) eqn:E1; [apply Nat.ltb_lt in E1; constructor; [exact E1|constructor]|].
    destruct (Nat.eqb x y) eqn:E2; [constructor|]. apply Nat.ltb_ge in E1. apply Nat.eqb_neq in E2. constructor; [lia|constructor].
  - destruct (Nat.ltb x y) eqn:E1; [apply Nat.ltb_lt in E1; constructor; [exact E1|constructor; assumption]|].
    destruct (Nat.eqb x y) eqn:E2; [constructor; assumption|]. apply Nat.ltb_ge in E1. apply Nat.eqb_neq in E2.
    cbn [insert_sorted] in IH. destruct (Nat.ltb x z) eqn:E3.
    + apply Nat.ltb_lt in E3. constructor; [lia|]. constructor; assumption.
    + destruct (Nat.eqb x z) eqn:E4; [constructor; assumption|]. constructor; [exact Hyz | exact IH].
Qed.
Lemma canon_nat_sorted l : ssorted (canon_nat l).
Proof. induction l as [|x l IH]; cbn; [constructor | apply insert_sorted_sorted; exact IH]. Qed.

Lemma ssorted_lb x l : ssorted (x :: l) -> forall y, In y l -> x < y.
Proof.
  revert x. induction l as [|z l IH]; intros x Hs y Hy; [destruct Hy|].
  inversion Hs as [| |x' z' l' Hxz Hs']; subst. destruct Hy as [<-|Hy]; [assumption|]. specialize (IH z Hs' y Hy). lia.
Qed.

(* two sorted duplicate-free lists with the same members are equal: the name is injective on sets *)
Lemma ssorted_ext l1 : forall l2, ssorted l1 -> ssorted l2 -> (forall y, In y l1 <-> In y l2) -> l1 = l2.
Proof.
  induction l1 as [|x l1 IH]; intros l2 H1 H2 He.
  - destruct l2 as [|y l2]; [reflexivity|]. exfalso. apply (He y). left; reflexivity.
  - destruct l2 as [|y l2]; [exfalso; apply (He x); left; reflexivity|].
    assert (Hxy : x = y).
    { destruct (proj1 (He x) (or_introl eq_refl)) as [->|Hx]; [reflexivity|].
      destruct (proj2 (He y) (or_introl eq_refl)) as [->|Hy]; [reflexivity|].
      pose proof (ssorted_lb _ _ H2 x Hx). pose proof (ssorted_lb _ _ H1 y Hy). lia. }
    subst y. f_equal. apply IH.
    + inversion H1; subst; [constructor | assumption].
    + inversion H2; subst; [constructor | assumption].
    + intros z. split; intros Hz.
      * destruct (proj1 (He z) (or_intror Hz)) as [<-|Hz2]; [|exact Hz2]. pose proof (ssorted_lb _ _ H1 _ Hz). lia.
      * destruct (proj2 (He z) (or_intror Hz)) as [<-|Hz2]; [|exact Hz2]. pose proof (ssorted_lb _ _ H2 _ Hz). lia.
Qed.

Lemma canon_nat_ext l1 l2 : (forall y, In y l1 <-> In y l2) -> canon_nat l1 = canon_nat l2.
Proof.
  intros He. apply ssorted_ext; try apply canon_nat_sorted. intros y. rewrite !canon_nat_In. apply He.
Qed.
