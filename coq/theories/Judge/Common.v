(* Shared by the correspondence judges: a judge returns a code, 0 = agreement, 1 = only the stricter
   structural layer differs (informational, property-level relation still holds), >= 2 = the
   implementation's observation violates the relation required by the property. *)
From GT Require Import Base.Prelude.

Fixpoint failures_from (i : nat) (codes : list nat) : list (nat * nat) :=
  match codes with
  | [] => []
  | c :: cs => if Nat.eqb c 0 then failures_from (S i) cs else (i, c) :: failures_from (S i) cs
  end.
Definition failures (codes : list nat) : list (nat * nat) := failures_from 0 codes.

(* first non-zero code *)
Fixpoint first_code (codes : list nat) : nat :=
  match codes with
  | [] => 0
  | c :: cs => if Nat.eqb c 0 then first_code cs else c
  end.
(* worst code: any code >= 2 wins over 1 *)
Fixpoint worst_code (codes : list nat) : nat :=
  match codes with
  | [] => 0
  | c :: cs => let r := worst_code cs in if Nat.leb 2 c then c else if Nat.leb 2 r then r else Nat.max c r
  end.

Definition check (b : bool) (code : nat) : nat := if b then 0 else code.
