From GT Require Import Base.Prelude Model.TM Judge.Common.

(* one run: word, budget, implementation verdict (None = exception; Some v = returned v), implementation trace *)
Definition run_obs := (word * nat * option (option bool) * option (list config))%type.

Definition judge_run (T : tm) (r : run_obs) : nat :=
  let '(w, k, ov, otr) := r in
  worst_code [ check (eqb ov (Some (tm_accepts T w k))) 2;
               check (eqb otr (Some (tm_simulate T w k))) 3 ].

Definition judge_C11 (T : tm) (runs : list run_obs) (owords : list (nat * nat * option (list word))) : nat :=
  worst_code (check (tm_wf_b T) 9 :: map (judge_run T) runs ++
              map (fun x => let '(n, k, ows) := x in
                            match ows with None => 4 | Some ws => check (seteqb ws (tm_words T n k)) 4 end) owords).

Definition explain_C11 (T : tm) (runs : list (word * nat)) :=
  map (fun r => let '(w, k) := r in (tm_accepts T w k, tm_simulate T w k)) runs.
