(* C04, second file — the decision procedure behind the judge for large DFAs (Decide/Moore.v: Moore's partition refinement with
   class ids, a few hundred states in under a second under vm_compute).  W, mn and C04_spec are the definitions of Properties/C04.v.

     C04_oracle_decides_mn       : mn_b decides Myhill-Nerode equivalence of two states of a well-formed DFA;
     C04_oracle_counts_classes   : moore_count D is the number of Myhill-Nerode classes of the states of D (the length of every
                                   duplicate-free list of pairwise inequivalent states that represents every state);
     C04_oracle_counts_result    : every D' with C04_spec D D' - in particular the result of each of the three routines
                                   (C04_table_filling, C04_quotient, C04_hopcroft) - has exactly moore_count D states.
   The judge (Judge/Extra_judge.v, judge_C04_big) demands of each returned automaton R: well-formed, same alphabet, language of D
   (Decide/DFAEquiv.v), no two equivalent states (moore_count R = number of states of R) and moore_count D states. *)
From GT Require Import Base.Prelude Model.DFA Decide.Moore.
From GT Require Import Properties.C04 Proofs.MooreProofs.

Theorem C04_oracle_decides_mn : forall (D : dfa nat) (p q : nat), dfa_wf D -> In p (dQ D) -> In q (dQ D) ->
  (mn_b D p q = true <-> mn D p q).
Proof. exact moore_correct. Qed.

Theorem C04_oracle_counts_classes : forall (D : dfa nat), dfa_wf D -> forall l, NoDup l -> incl l (dQ D) ->
  (forall p q, In p l -> In q l -> p <> q -> ~ mn D p q) ->
  (forall q, In q (dQ D) -> exists p, In p l /\ mn D p q) ->
  length l = moore_count D.
Proof. exact moore_count_spec. Qed.

Theorem C04_oracle_counts_result : forall (D : dfa nat) (D' : dfa (list nat)), dfa_wf D -> NoDup (dQ D) -> C04_spec D D' ->
  length (dQ D') = moore_count D.
Proof. exact moore_count_of_min_spec. Qed.

Print Assumptions C04_oracle_decides_mn.
Print Assumptions C04_oracle_counts_classes.
Print Assumptions C04_oracle_counts_result.
