From GT Require Import Base.Prelude Model.NFA Model.PDA Judge.Common.

Definition big (limit : nat) : nat := 2 * limit + 20.
Definition trunc_of (t : list config) : bool := match t with [] => false | _ => true end.

(* closure query: argument set R, implementation result *)
Definition judge_closure (P : pda) (limit : nat) (q : list config * option (list config)) : nat :=
  let '(R, o) := q in
  match o with
  | None => 2
  | Some res =>
    let '(m, t) := pda_eclose pick_head P limit R in
    if negb (trunc_of t) then check (seteqb res m) 3          (* below the limit: exact, whatever the pop order *)
    else
      (* truncated: the value depends on the pop order; every member must still be epsilon-reachable, the argument included *)
      let '(mb, _) := pda_eclose pick_head P (big limit) R in
      if negb (subsetb R res) then 4
      else if subsetb res mb then 0 else 1                      (* 1: could not be decided within the larger budget *)
  end.

Definition judge_verdict (P : pda) (limit : nat) (x : word * option bool) : nat :=
  let '(w, o) := x in
  match o with
  | None => 5
  | Some b =>
    let '(v, tr) := pda_accepts pick_head P limit w in
    if negb tr then check (Bool.eqb b v) 6                      (* no closure hit the limit: sound and complete *)
    else if negb b then 0                                        (* truncated: only soundness is required *)
    else let '(vb, trb) := pda_accepts pick_head P (big limit) w in
         if vb then 0 else if trb then 1 else 7                  (* 7: answered True for a word without accepting computation *)
  end.

Definition judge_C09 (P : pda) (limit : nat) (verdicts : list (word * option bool))
           (closures : list (list config * option (list config)))
           (steps : list (nat * list config * option (list config)))
           (poppush : list (list nat * nat * nat * option bool * option (option (list nat)))) : nat :=
  worst_code (check (pda_wf_b P) 9 ::
    map (judge_verdict P limit) verdicts ++ map (judge_closure P limit) closures ++
    [ check (forallb (fun s => let '(a, R, o) := s in match o with Some r => seteqb r (pda_do_transition P a R) | None => false end) steps) 8;
      check (forallb (fun s => let '(st, u, v, ocan, opp) := s in
               eqb ocan (Some (can_pop_push P st u)) &&
               eqb opp (Some (if can_pop_push P st u then Some (pop_push P st u v) else None))) poppush) 10 ]).

Definition explain_C09 (P : pda) (limit : nat) (ws : list word) :=
  map (fun w => (pda_accepts pick_head P limit w, pda_accepts pick_head P (big limit) w)) ws.
