(* Model of pda_simulate_word (with pda_find_epsilon_path, pda_find_transition; gambatools.pda_algorithms, as
   repaired by fix F8) and of cfg_derive_word (with find_rule, extract_derivation, first_index / last_index;
   gambatools.cfg_algorithms, as repaired by fix F13).  Definitions only.

   Conventions: a PDA configuration is (state, stack) with the TOP OF THE STACK AT THE HEAD of the list (Model/PDA.v);
   a run entry is (state, unread word, stack).  `pick` stands for set.pop() and for the iteration order of a Python
   set (arbitrary).

   Places where the model is not a literal transcription of the Python text (see the comments at the definitions):
   (D1) the `while todo` loop of pda_find_epsilon_path has no bound in Python; the model takes a fuel, and
        pda_simulate passes 1 + |E| where E is the epsilon closure of R computed by the forward pass.  This bound is
        exact when that closure was not truncated by the iteration limit (every configuration ever put in `visited`
        is then a member of E, and each iteration removes a different one from todo); when it was truncated the
        Python loop may run longer (or for ever) where the model returns None.
   (D2) the parse tree of cfg_derive_word is built in Python with an explicit stack and children lists that are
        filled in place; the children of a node depend only on its own label (A, p, q), so the model builds the
        same tree by recursion (fuel = length of the span, which bounds the depth).
   (D3) the `while todo` loop of extract_derivation pops one node per iteration and pushes every node once: the
        model gives it 1 + (number of nodes of the tree) iterations.
   Python compares Variable/Terminal objects (subclasses of str) BY NAME ONLY: `B in Xpm`, `element.index(A)`.
   The model does the same (find_rule, first_index, last_index compare `sname`). *)
From GT Require Import Base.Prelude Model.NFA Model.PDA Model.CFG Model.CYK Model.Simulate.

(* ================= breadth-first search with back-pointers, generic in the successor function =================
   (the loop of nfa_find_epsilon_path / pda_find_epsilon_path; `make_path` and `visit_targets` are those of
   Model/Simulate.v: a back-pointer is set on the first visit only, the search stops as soon as f is visited) *)
Section BFS.
  Context {A : Type} `{Eqb A}.
  Variable pick : picker A.
  Variable succ : A -> list A.
  Fixpoint bfs_path_loop (R : list A) (f : A) (fuel : nat) (visited todo : list A) (bp : list (A * A)) : option (list A) :=
    match fuel with
    | 0 => None
    | S fu => match pick todo with
              | None => None                                         (* todo is empty: return None *)
              | Some (src, rest) =>
                let '(v', t', bp', found) := visit_targets f src (succ src) visited rest bp in
                if found then make_path R bp' (S (length bp')) f []
                else bfs_path_loop R f fu v' t' bp'
              end
    end.
  Definition bfs_path (fuel : nat) (R : list A) (f : A) : option (list A) :=
    if mem f R then Some [f]
    else bfs_path_loop R f fuel (dedup R) (dedup R) [].
End BFS.

(* ================= pda_simulate_word ================= *)
Section PDASim.
  Variable pickc : picker config.    (* exploration order of pda_epsilon_closure *)
  Variable pick : picker config.     (* todo.pop() on a set / iteration order of a set *)
  Variable limit : nat.              (* GambaTools.pda_epsilon_closure_max_iterations *)

  (* pda_find_epsilon_path(P, R, f): the targets of src are visited in the order of moves P eps src (D1: fuel) *)
  Definition pda_find_epsilon_path (P : pda) (fuel : nat) (R : list config) (f : config) : option (list config) :=
    bfs_path pick (moves P (peps P)) fuel R f.

  (* pda_find_transition(P, R, a, target): some src in R (set iteration order) with src --a--> target *)
  Definition pda_find_transition (P : pda) (R : list config) (a : nat) (target : config) : option config :=
    match pick (filter (fun src => mem target (moves P a src)) R) with
    | Some (src, _) => Some src
    | None => None
    end.

  Definition make_row (r : config) (wd : word) : nat * word * list nat := (fst r, wd, snd r).

  (* the sets appended to H inside `for a in w`: T1; E1; ...; Tn; En *)
  Fixpoint pda_history (P : pda) (w : word) (R : list config) : list (list config) :=
    match w with
    | [] => []
    | a :: w' => let T := pda_do_transition P a R in
                 let E := fst (pda_eclose pickc P limit T) in
                 T :: E :: pda_history P w' E
    end.

  (* the loop `for a in reversed(w)`.  rev_hist = [Ei; Ti; E(i-1); T(i-1); ...; E0; {c0}]: the closure Ei from which
     front was taken stays at the head (Python has already popped it) only to provide the fuel of (D1) *)
  Fixpoint pda_back (P : pda) (rw : word) (rev_hist : list (list config)) (front : config) (cur : word)
           (result : list (nat * word * list nat)) : option (config * word * list (nat * word * list nat)) :=
    match rw, rev_hist with
    | [], _ => Some (front, cur, result)
    | a :: rw', Ecur :: T :: ((E :: _) as hist') =>
      match pda_find_epsilon_path P (S (length Ecur)) T front with
      | None => None                                             (* path[:-1] on None raises *)
      | Some path =>
        let result1 := map (fun r => make_row r cur) (removelast path) ++ result in
        match path with
        | [] => None
        | p0 :: _ =>
          match pda_find_transition P E a p0 with
          | None => None                                         (* make_row(None, ..) raises *)
          | Some src => pda_back P rw' hist' src (a :: cur) (make_row src (a :: cur) :: result1)
          end
        end
      end
    | _, _ => None
    end.

  Definition pda_simulate_gen (P : pda) (w : word) : option (list (nat * word * list nat)) :=
    let c0 := (pq0 P, []) in
    let E0 := fst (pda_eclose pickc P limit [c0]) in
    let hist := [c0] :: E0 :: pda_history P w E0 in
    let final := last hist [] in
    if existsb (fun r => mem (fst r) (pF P)) final then
      match pick (filter (fun r => mem (fst r) (pF P)) final) with       (* next(r for r in S if r.q in F) *)
      | None => None
      | Some (front, _) =>
        match pda_back P (rev w) (rev hist) front [] [make_row front []] with
        | None => None
        | Some (front', word', result) =>
          match pda_find_epsilon_path P (S (length E0)) [c0] front' with
          | None => None
          | Some path => Some (map (fun r => make_row r word') (removelast path) ++ result)
          end
        end
      end
    else None.                                                           (* the word is rejected *)
End PDASim.

(* one picker for everything (what the harness and the judge use); None = nothing returned *)
Definition pda_simulate (pick : picker config) (limit : nat) (P : pda) (w : word) : option (list (nat * word * list nat)) :=
  pda_simulate_gen pick pick limit P w.

(* ================= cfg_derive_word ================= *)
(* a node (label, p, q, children) *)
Inductive ptree := PNode : sym -> nat -> nat -> list ptree -> ptree.
Definition plabel (t : ptree) : sym := match t with PNode A _ _ _ => A end.
Definition pchildren (t : ptree) : list ptree := match t with PNode _ _ _ ch => ch end.
Fixpoint psize (t : ptree) : nat := match t with PNode _ _ _ ch => S (list_sum (map psize ch)) end.

(* P[A]: the right-hand sides of the rules of A, in the order of G.R *)
Definition rules_of (G : cfg) (A : nat) : list (list sym) :=
  map rrhs (filter (fun r => Nat.eqb (rvar r) A) (gR G)).

(* find_rule(rules, Xpm, Xmq): the first alternative of length 2 whose symbols are (by name) in the two cells *)
Fixpoint find_rule (alts : list (list sym)) (Xpm Xmq : list nat) : option (sym * sym) :=
  match alts with
  | [] => None
  | alt :: rest =>
    match alt with
    | [B; C] => if mem (sname B) Xpm && mem (sname C) Xmq then Some (B, C) else find_rule rest Xpm Xmq
    | _ => find_rule rest Xpm Xmq
    end
  end.

(* for m in range(p+1, q): ... break at the first m for which find_rule succeeds *)
Fixpoint find_split (alts : list (list sym)) (X : ctable) (p q : nat) (ms : list nat) : option (nat * sym * sym) :=
  match ms with
  | [] => None
  | m :: ms' => match find_rule alts (cget X p (m - 1)) (cget X m (q - 1)) with
                | Some (B, C) => Some (m, B, C)
                | None => find_split alts X p q ms'
                end
  end.

(* the tree below the node (A, p, q)  (D2).  A node for which no split point works keeps an empty children list *)
Fixpoint build_tree (G : cfg) (w : word) (X : ctable) (fuel : nat) (A : sym) (p q : nat) : ptree :=
  match fuel with
  | 0 => PNode A p q []
  | S fu =>
    if Nat.eqb (q - p) 1 then PNode A p q [PNode (Tm (nth p w 0)) p q []]
    else match find_split (rules_of G (sname A)) X p q (seq (S p) (q - S p)) with
         | Some (m, B, C) => PNode A p q [build_tree G w X fu B p m; build_tree G w X fu C m q]
         | None => PNode A p q []
         end
  end.

(* first_index(x, value) = x.index(value); last_index(x, value) = len(x) - list(reversed(x)).index(value) - 1;
   None = ValueError *)
Fixpoint first_index (A : sym) (x : list sym) : option nat :=
  match x with
  | [] => None
  | s :: x' => if Nat.eqb (sname s) (sname A) then Some 0
               else match first_index A x' with Some i => Some (S i) | None => None end
  end.
Definition last_index (A : sym) (x : list sym) : option nat :=
  match first_index A (rev x) with
  | Some i => Some (length x - i - 1)
  | None => None
  end.

(* extract_derivation(root, leftmost): leftmost pops the front of todo and puts the children in front,
   rightmost pops the end of todo and appends the children  (D3: fuel; None on fuel 0 never happens) *)
Fixpoint extract_loop (leftmost : bool) (fuel : nat) (todo : list ptree) (element : list sym)
         (result : list (list sym)) : option (list (list sym)) :=
  match fuel with
  | 0 => None
  | S fu =>
    match (if leftmost then pick_head todo else pick_last todo) with
    | None => Some result
    | Some (PNode A _ _ children, rest) =>
      match children with
      | [] => extract_loop leftmost fu rest element result
      | _ :: _ =>
        match (if leftmost then first_index A element else last_index A element) with
        | None => None
        | Some pos =>
          let element' := firstn pos element ++ map plabel children ++ skipn (S pos) element in
          extract_loop leftmost fu (if leftmost then children ++ rest else rest ++ children) element' (result ++ [element'])
        end
      end
    end
  end.
Definition extract_derivation (root : ptree) (leftmost : bool) : option (list (list sym)) :=
  extract_loop leftmost (S (psize root)) [root] [plabel root] [[plabel root]].

(* mode 0: 'leftmost' / 'any'; mode 1: 'rightmost'.  None = the Python raises (assertions, RuntimeError for a word
   that is not accepted, ValueError of index) *)
Definition cfg_derive (G : cfg) (w : word) (mode : nat) : option (list (list sym)) :=
  if negb (is_chomsky_b G) || Nat.ltb 1 mode then None
  else
    let X := cyk G w in
    let n := length w in
    if negb (mem (gS G) (cget X 0 (n - 1))) then None
    else extract_derivation (build_tree G w X n (Var (gS G)) 0 n) (Nat.eqb mode 0).
