(* C10, final composition: pda_to_cfg = to_one_accept ; (to_push_pop) ; to_empty_stack ; pda_to_cfg_core.
   The normal-form theorems of Proofs/PDAConvProofs.v are combined with the core theorem of
   Proofs/PDA2CFGProofs.v.  The state set of the final automaton is `pQ P` plus names taken from the stream
   `states`, so that it is small (all codes < 40) as soon as the states of P and the names of the stream are.
   (pda_to_cfg_correct_cond of PDA2CFGProofs.v is not used as such: its second hypothesis is quantified over
   every automaton P0, while to_push_pop_correct needs `dummy <> peps P0`; the composition is redone here
   with that side condition, which follows from `dummy <> peps P` since no stage changes the epsilon symbol.)
   Stdlib only, no axioms. *)
From GT Require Import Base.Prelude Model.NFA Model.PDA Model.CFG Model.PDAConv Proofs.PDAProofs Proofs.CFGBasics
  Proofs.PDAConvProofs Proofs.PDA2CFGProofs.
Import ListNotations.

(* a stage that turns (Q, stream) into (Q', rest) only adds states taken from the stream, and the stream shrinks *)
Definition stage_ok (Q states Q' rest : list nat) : Prop :=
  (forall q, In q Q' -> In q Q \/ In q states) /\ incl rest states.

Lemma stage_ok_refl Q states : stage_ok Q states Q states.
Proof. split; [intros q Hq; left; exact Hq | apply incl_refl]. Qed.

Lemma stage_ok_trans Q0 s0 Q1 s1 Q2 s2 : stage_ok Q0 s0 Q1 s1 -> stage_ok Q1 s1 Q2 s2 -> stage_ok Q0 s0 Q2 s2.
Proof.
  intros [A1 B1] [A2 B2]. split.
  - intros q Hq. destruct (A2 q Hq) as [H|H]; [apply A1; exact H | right; apply B1; exact H].
  - intros x Hx. apply B1, B2. exact Hx.
Qed.

Lemma to_one_accept_stage states P P' rest : to_one_accept states P = Some (P', rest) ->
  stage_ok (pQ P) states (pQ P') rest.
Proof.
  intros E. apply to_one_accept_cases in E. destruct E as [(-> & -> & _)|(qa & -> & _ & ->)].
  - apply stage_ok_refl.
  - cbn [one_accept_pda pQ]. split.
    + intros q Hq. apply in_app_or in Hq. destruct Hq as [Hq|[Hq|[]]]; [left; exact Hq | right; left; exact Hq].
    + intros x Hx. right. exact Hx.
Qed.

Lemma pp_step_stage e dummy Q d s t Q' d' s' :
  pp_step e dummy (Some (Q, d, s)) t = Some (Q', d', s') -> stage_ok Q s Q' s'.
Proof.
  destruct t as [[[[p a] u] q] v]. cbn [pp_step].
  destruct ((Nat.eqb u e && negb (Nat.eqb v e)) || (negb (Nat.eqb u e) && Nat.eqb v e)).
  - intros E. inversion E; subst. apply stage_ok_refl.
  - destruct (take1 Q s) as [[m rest]|] eqn:Et; [|discriminate]. apply take1_spec in Et. destruct Et as [-> _].
    assert (HS : stage_ok Q (m :: rest) (Q ++ [m]) rest).
    { split.
      - intros x Hx. apply in_app_or in Hx. destruct Hx as [Hx|[Hx|[]]]; [left; exact Hx | right; left; exact Hx].
      - intros x Hx. right. exact Hx. }
    destruct (Nat.eqb u e); intros E; inversion E; subst; exact HS.
Qed.

Lemma pp_fold_stage e dummy ts : forall Q d s Q' d' s',
  fold_left (pp_step e dummy) ts (Some (Q, d, s)) = Some (Q', d', s') -> stage_ok Q s Q' s'.
Proof.
  induction ts as [|t ts IH]; intros Q d s Q' d' s' E; cbn [fold_left] in E.
  - inversion E; subst. apply stage_ok_refl.
  - destruct (pp_step e dummy (Some (Q, d, s)) t) as [[[Q1 d1] s1]|] eqn:E1.
    + apply stage_ok_trans with Q1 s1; [apply (pp_step_stage e dummy Q d s t Q1 d1 s1 E1) | apply (IH _ _ _ _ _ _ E)].
    + rewrite pp_fold_none in E. discriminate.
Qed.

Lemma to_push_pop_stage dummy states P P' rest : to_push_pop dummy states P = Some (P', rest) ->
  stage_ok (pQ P) states (pQ P') rest.
Proof.
  intros E. apply to_push_pop_cases in E. destruct E as (P1 & s1 & Q & d & E1 & _ & Ef & ->). cbn [pQ].
  apply stage_ok_trans with (pQ P1) s1; [apply to_one_accept_stage; exact E1 | apply (pp_fold_stage _ _ _ _ _ _ _ _ _ Ef)].
Qed.

Lemma to_empty_stack_stage bottom states P P' rest : to_empty_stack bottom states P = Some (P', rest) ->
  stage_ok (pQ P) states (pQ P') rest.
Proof.
  intros E. apply to_empty_stack_cases in E. destruct E as (_ & _ & qi & qd & qa & -> & _ & _ & _ & ->).
  cbn [empty_stack_pda pQ]. split.
  - intros q Hq. apply in_app_or in Hq. destruct Hq as [Hq|Hq]; [left; exact Hq|]. right.
    cbn [In] in Hq |- *. tauto.
  - intros x Hx. right; right; right. exact Hx.
Qed.

(* all the stages together: the states of the final automaton are states of P or names of the stream *)
Theorem pda_to_cfg_states bottom dummy states P G : pda_to_cfg bottom dummy states P = Some G ->
  exists P3, G = pda_to_cfg_core P3 /\ forall q, In q (pQ P3) -> In q (pQ P) \/ In q states.
Proof.
  intros E. apply pda_to_cfg_stages in E.
  destruct E as (P1 & s1 & P2 & s2 & P3 & s3 & E1 & E2 & E3 & ->).
  exists P3. split; [reflexivity|].
  assert (H1 : stage_ok (pQ P) states (pQ P1) s1) by (apply to_one_accept_stage; exact E1).
  assert (H2 : stage_ok (pQ P1) s1 (pQ P2) s2).
  { destruct E2 as [(_ & -> & ->)|(_ & E2)]; [apply stage_ok_refl | apply (to_push_pop_stage dummy s1 P1 P2 s2 E2)]. }
  assert (H3 : stage_ok (pQ P2) s2 (pQ P3) s3) by (apply (to_empty_stack_stage bottom s2 P2 P3 s3 E3)).
  apply (stage_ok_trans _ _ _ _ _ _ (stage_ok_trans _ _ _ _ _ _ H1 H2) H3).
Qed.

(* the whole conversion, with the final automaton exhibited *)
Theorem pda_to_cfg_correct_strong bottom dummy states P G :
  pda_wf P -> dummy <> peps P -> pda_to_cfg bottom dummy states P = Some G ->
  exists P3, G = pda_to_cfg_core P3 /\ cfg_wf G /\ gSg G = pSg P /\
    (forall q, In q (pQ P3) -> In q (pQ P) \/ In q states) /\
    (small_states P3 -> forall w, cfg_lang G w <-> pda_lang P w).
Proof.
  intros Hwf Hd E.
  apply pda_to_cfg_stages in E.
  destruct E as (P1 & s1 & P2 & s2 & P3 & s3 & E1 & E2 & E3 & ->).
  destruct (to_one_accept_correct states P P1 s1 Hwf E1) as (Hwf1 & _ & HSg1 & _ & He1 & _ & L1).
  assert (H2 : pda_wf P2 /\ pda_is_push_pop P2 = true /\ pSg P2 = pSg P1 /\ (forall w, pda_lang P2 w <-> pda_lang P1 w)).
  { destruct E2 as [(Hpp & -> & ->)|(_ & E2)].
    - split; [exact Hwf1|]. split; [exact Hpp|]. split; [reflexivity|]. intros w. reflexivity.
    - assert (Hd1 : dummy <> peps P1) by (rewrite He1; exact Hd).
      destruct (to_push_pop_correct dummy s1 P1 P2 s2 Hwf1 Hd1 E2) as (W & PP & _ & SG & _ & L). auto. }
  destruct H2 as (Hwf2 & Hpp2 & HSg2 & L2).
  destruct (to_empty_stack_correct bottom s2 P2 P3 s3 Hwf2 E3) as (Hwf3 & HSg3 & _ & (qa & HF) & L3 & Hemp & Hpp3).
  exists P3. split; [reflexivity|]. split; [apply pda_to_cfg_core_wf; exact Hwf3|].
  split; [unfold pda_to_cfg_core; cbn [gSg]; rewrite HSg3, HSg2, HSg1; reflexivity|].
  split.
  - (* as in pda_to_cfg_states *)
    assert (S1 : stage_ok (pQ P) states (pQ P1) s1) by (apply to_one_accept_stage; exact E1).
    assert (S2 : stage_ok (pQ P1) s1 (pQ P2) s2).
    { destruct E2 as [(_ & -> & ->)|(_ & E2)]; [apply stage_ok_refl | apply (to_push_pop_stage dummy s1 P1 P2 s2 E2)]. }
    assert (S3 : stage_ok (pQ P2) s2 (pQ P3) s3) by (apply (to_empty_stack_stage bottom s2 P2 P3 s3 E3)).
    apply (stage_ok_trans _ _ _ _ _ _ (stage_ok_trans _ _ _ _ _ _ S1 S2) S3).
  - intros Hsm w. rewrite (pda_to_cfg_core_correct_strong P3 qa Hwf3 (Hpp3 Hpp2) Hsm HF).
    + rewrite L3, L2, L1. reflexivity.
    + intros w' st Hr. apply (Hemp w' qa st); [rewrite HF; left; reflexivity | exact Hr].
Qed.

Theorem pda_to_cfg_correct bottom dummy states P G :
  pda_wf P -> dummy <> peps P ->
  (forall q, In q (pQ P) -> q < 40) -> (forall q, In q states -> q < 40) ->
  pda_to_cfg bottom dummy states P = Some G ->
  cfg_wf G /\ gSg G = pSg P /\ forall w, cfg_lang G w <-> pda_lang P w.
Proof.
  intros Hwf Hd HQ Hs E.
  destruct (pda_to_cfg_correct_strong bottom dummy states P G Hwf Hd E) as (P3 & _ & HG & HSg & HQ3 & HL).
  split; [exact HG|]. split; [exact HSg|]. apply HL.
  intros q Hq. destruct (HQ3 q Hq) as [H|H]; [apply HQ; exact H | apply Hs; exact H].
Qed.

Print Assumptions pda_to_cfg_states.
Print Assumptions pda_to_cfg_correct_strong.
Print Assumptions pda_to_cfg_correct.
